"""C03 - tree iterators and tear-down (src/avl.c, src/rbt.c, include/a/avl.h, include/a/rbt.h).

  prove : coq/Properties_C03.v (theorems about the model coq/C03/IterDefs.v, for every binary tree
          with distinct ids).
  tie   : the C harness (harness/C03/drv.c, ASan+UBSan, every node its own malloc block, free() of
          each node tear hands out) builds real AVL / RB trees by insert/remove histories (and
          hand-linked trees of arbitrary shape), dumps the shape (root; left/right/parent per id)
          and prints the id sequence of every foreach macro, every single step from every node,
          head/tail/post_head/post_tail, a tear-down interrupted after k nodes, the remaining
          structure, its iterations, and the resumed tear-down.  The EXTRACTED Gallina model
          (harness/C03/mdrv.ml + coq/C03/extracted/iter.ml) reads only the dumped shape, runs the
          model's iterators/tear on that heap, and must print the same lines.
  tie 2 : translator tools/c2nav.py (wired by tools/vnav.py): the ten navigation functions, tear and its helper new_child of
          src/avl.c and src/rbt.c are REGENERATED from the current sources (clang JSON AST; both node layouts: packed parent
          word and plain parent field, the accessor recognised by its own definition) into Gallina over the model's reader /
          state vocabulary, and harness/C03/TieNav.v proves each generated function equal to the model of IterDefs.v for
          every reader, fuel and argument (22 tie theorems per layout, re-checked on every run).  The 14 + 14 ITERATION MACROS
          of avl.h / rbt.h (foreach, foreach_reverse, pre_/post_ forms, fortear; lower-case and upper-case) are expanded by
          clang in harness/C03/macro_unit.c (one function per macro around a visit of the element; fortear: visit + free),
          translated the same way and proved in harness/C03/TieNavMacros.v EQUAL to the model's foreach ... post_foreach_reverse
          (the objects of the enumeration theorems) resp. to the uninterrupted tear-down loop tear_all of coq/C03/NavLemmas.v,
          which agrees with the model's fortear on every complete run (28 tie theorems per layout).
  oracle: the property itself evaluated on what the C printed (recursive traversals of the dump,
          ascending keys, next/prev inverse, exactly-once, children before parents, remaining
          structure is the restriction of the tree, final root null); ASan/UBSan aborts, crashes
          and non-termination count as failures.  Failing cases are shrunk (ddmin on the ops, then k).
"""
import hashlib
import os
import random
import re
from pathlib import Path

try:
    from tools import vlib, vnav
except ImportError:  # pragma: no cover
    import vlib
    import vnav

H = vlib.VERIF / "harness" / "C03"
CORPUS = vlib.VERIF / "corpus" / "C03"
RUN_ENV = {"ASAN_OPTIONS": "detect_leaks=0:abort_on_error=0:allocator_may_return_null=1",
           "UBSAN_OPTIONS": "print_stacktrace=0"}
SEQ_TAGS = ("in", "inr", "pre", "prer", "post", "postr")
STEP_TAGS = ("next", "prev", "pnext", "pprev", "qnext", "qprev")


# ------------------------------------------------------------------------------------ generators
def shapes(n, memo={}):
    """all binary tree shapes with n nodes, as nested tuples (left, right) / None"""
    if n in memo:
        return memo[n]
    if n == 0:
        res = [None]
    else:
        res = []
        for a in range(n):
            for l in shapes(a):
                for r in shapes(n - 1 - a):
                    res.append((l, r))
    memo[n] = res
    return res


def raw_ops(shape, ids):
    """ops that hand-link `shape`; ids: iterator of fresh ids (parents before children)"""
    ops = []
    stack = [(shape, 0, "t")]
    while stack:
        s, pid, how = stack.pop()
        if s is None:
            continue
        me = next(ids)
        ops.append("t%d" % me if how == "t" else "%s%d:%d" % (how, me, pid))
        stack.append((s[1], me, "g"))
        stack.append((s[0], me, "l"))
    return ops


def id_stream(rng, n):
    l = rng.sample(range(1, 3 * n + 8), n)
    return iter(l)


def chain(n, pat):
    """a path of n nodes; pat(i) in 'lr' says on which side node i+1 hangs"""
    s = None
    for i in range(n - 1, -1, -1):
        if s is None:
            s = (None, None)
        else:
            s = (s, None) if pat(i) == "l" else (None, s)
    return s


def fib_tree(h, lean):
    if h <= 0:
        return None
    if h == 1:
        return (None, None)
    a, b = fib_tree(h - 1, lean), fib_tree(h - 2, lean)
    return (a, b) if lean == "l" else (b, a)


def complete(h):
    return None if h == 0 else (complete(h - 1), complete(h - 1))


def random_shape(rng, n):
    """shape of the (unbalanced) BST obtained by inserting a random permutation"""
    keys = list(range(n))
    rng.shuffle(keys)
    left, right = {}, {}
    root = None
    for k in keys:
        if root is None:
            root = k
            continue
        c = root
        while True:
            if k < c:
                if c in left:
                    c = left[c]
                else:
                    left[c] = k
                    break
            else:
                if c in right:
                    c = right[c]
                else:
                    right[c] = k
                    break
    # build nested tuples iteratively (post-order)
    built = {}
    stack = [(root, False)]
    while stack:
        x, done = stack.pop()
        if x is None:
            continue
        if done:
            built[x] = (built.get(left.get(x)), built.get(right.get(x)))
        else:
            stack.append((x, True))
            stack.append((left.get(x), False))
            stack.append((right.get(x), False))
    return built.get(root)


def shape_size(s):
    n, st = 0, [s]
    while st:
        x = st.pop()
        if x is not None:
            n += 1
            st.append(x[0])
            st.append(x[1])
    return n


def pick_k(rng, n, i):
    c = [0, 1, n - 1, n, n + 1, n // 2, rng.randint(0, n + 1), rng.randint(0, n + 1)]
    return max(0, c[i % len(c)])


def history(rng, length, krange, pdel):
    ops, live = [], []
    nid = 0
    idpool = rng.sample(range(1, 4 * length + 8), length)
    for _ in range(length):
        if live and rng.random() < pdel:
            j = rng.randrange(len(live))
            live[j], live[-1] = live[-1], live[j]
            ops.append("d%d" % live.pop())
        else:
            i = idpool[nid]
            nid += 1
            ops.append("i%d:%d" % (i, rng.randrange(krange)))
            live.append(i)     # may be a rejected duplicate; a later d<id> is then a no-op
    return ops


def corpus_cases():
    out = []
    if CORPUS.is_dir():
        for f in sorted(CORPUS.glob("*.txt")):
            for ln in f.read_text().splitlines():
                ln = ln.strip()
                if ln and not ln.startswith("#"):
                    out.append(ln)
    return out


def plan(ctx):
    """The work of one run as a list of independent tasks (tag, kind-of-generator, params, seed).
    Every seed is derived from ctx.subseed()."""
    q = ctx.quick
    tasks = [("corpus", "corpus", {}, 0)]
    for n in range(0, (6 if q else 7) + 1):
        tasks.append(("all-insert-orders", "orders", {"n": n}, ctx.subseed("orders%d" % n)))
    for i in range(4 if q else 32):
        tasks.append(("insert-then-remove", "removals", {"count": 1000 if q else 2500, "nmax": 10 if q else 12},
                      ctx.subseed("removals%d" % i)))
    for n in range(1, (7 if q else 10) + 1):
        tasks.append(("all-shapes", "shapes", {"n": n, "both": q or n <= 8}, ctx.subseed("shapes%d" % n)))
    tasks.append(("directed-shapes", "directed", {"quick": q}, ctx.subseed("directed")))
    for i in range(4 if q else 48):
        tasks.append(("random-shapes", "randshapes", {"count": 1200 if q else 3000, "maxn": 120 if q else 400},
                      ctx.subseed("randshapes%d" % i)))
    for i in range(8 if q else 96):
        tasks.append(("random-histories", "histories", {"count": 1200 if q else 3000, "maxlen": 400 if q else 1500},
                      ctx.subseed("histories%d" % i)))
    if not q:
        for i in range(6):
            tasks.append(("random-histories", "bighist", {"count": 2}, ctx.subseed("bighist%d" % i)))
    return tasks


def gen_task(task):
    from itertools import permutations
    tag, gen, pr, seed = task
    rng = random.Random(seed)
    cases = []

    def add(kind, k, ops):
        cases.append("%s %d %s" % (kind, k, " ".join(ops)))
        # the tear-down may be started at any node ("next: input starting node or, if null, root node"): small trees get
        # every resident node as start, larger ones a random one in about a third of the cases
        ids = [int(re.match(r"[itlg](\d+)", o).group(1)) for o in ops if re.match(r"[itlg]\d+", o)]
        gone = set(int(o[1:]) for o in ops if re.match(r"d\d+$", o))
        ids = [i for i in dict.fromkeys(ids) if i not in gone]
        if not ids:
            return
        if len(ids) <= 4:
            for i in ids:
                cases.append("%s %d %s s%d" % (kind, k, " ".join(ops), i))
        elif rng.random() < 0.35:
            cases.append("%s %d %s s%d" % (kind, k, " ".join(ops), rng.choice(ids)))

    if gen == "corpus":
        return corpus_cases()
    if gen == "orders":
        # every insertion order of n distinct keys, AVL and RB, k cycling over 0..n+1
        n, c = pr["n"], 0
        for perm in permutations(range(n)):
            ids = rng.sample(range(1, 3 * n + 8), n)
            ops = ["i%d:%d" % (ids[j], 10 * perm[j] + 5) for j in range(n)]
            for kind in "AR":
                add(kind, c % (n + 2), ops)
                c += 1
    elif gen == "removals":
        # insertions followed by removals (shapes only removal reaches)
        for _ in range(pr["count"]):
            n = rng.randint(3, pr["nmax"])
            keys = list(range(n))
            rng.shuffle(keys)
            ids = rng.sample(range(1, 3 * n + 8), n)
            ops = ["i%d:%d" % (ids[j], keys[j]) for j in range(n)]
            dels = rng.sample(ids, rng.randint(1, n - 1))
            ops += ["d%d" % d for d in dels]
            add(rng.choice("AR"), pick_k(rng, n - len(dels), rng.randrange(8)), ops)
    elif gen == "shapes":
        # every binary tree shape with n nodes, hand-linked, ids permuted
        n, c = pr["n"], 0
        for s in shapes(n):
            for kind in ("ar" if pr["both"] else ("a" if c % 2 else "r")):
                add(kind, c % (n + 2), raw_ops(s, id_stream(rng, n)))
                c += 1
    elif gen == "directed":
        # chains (long climbs), zigzags, Fibonacci (minimal AVL), complete trees, combs
        q = pr["quick"]
        big = [1, 2, 3, 17, 64] if q else [1, 2, 3, 17, 64, 257, 1500]
        directed = []
        for n in big:
            directed += [chain(n, lambda i: "l"), chain(n, lambda i: "r"),
                         chain(n, lambda i: "lr"[i % 2]), chain(n, lambda i: "rl"[i % 2]),
                         chain(n, lambda i: "llr"[i % 3]), chain(n, lambda i: "rrl"[i % 3])]
        for h in (range(1, 8) if q else range(1, 15)):
            directed += [fib_tree(h, "l"), fib_tree(h, "r")]
        for h in (range(1, 6) if q else range(1, 11)):
            directed.append(complete(h))
        for i, s in enumerate(directed):
            n = shape_size(s)
            for j, kind in enumerate("ar"):
                add(kind, pick_k(rng, n, i + j), raw_ops(s, id_stream(rng, n)))
        for n in ([4, 9, 30] if q else [4, 9, 30, 200, 900]):
            for side in "lr":
                s = None
                for i in range(n):
                    leaf = (None, None) if i % 2 == 0 else None
                    s = (s, leaf) if side == "l" else (leaf, s)
                m = shape_size(s)
                add("ar"[n % 2], pick_k(rng, m, n), raw_ops(s, id_stream(rng, m)))
    elif gen == "randshapes":
        for i in range(pr["count"]):
            n = rng.choice([2, 3, 5, 8, 13, 21, 40]) if rng.random() < 0.9 else rng.randint(41, pr["maxn"])
            s = random_shape(rng, n)
            add("ar"[i % 2], pick_k(rng, n, i), raw_ops(s, id_stream(rng, n)))
    elif gen == "histories":
        for i in range(pr["count"]):
            r = rng.random()
            if r < 0.55:
                length = rng.randint(1, 24)
            elif r < 0.9:
                length = rng.randint(25, 120)
            else:
                length = rng.randint(121, pr["maxlen"])
            krange = rng.choice([8, 64, 1 << 20]) if length < 200 else rng.choice([64, 1 << 20])
            ops = history(rng, length, krange, rng.choice([0.0, 0.2, 0.35, 0.5]))
            add("AR"[i % 2], pick_k(rng, min(length, krange), i), ops)
    elif gen == "bighist":
        for i in range(pr["count"]):
            ops = history(rng, 4096, 1 << 20, [0.1, 0.3, 0.45][i % 3])
            add("AR"[i % 2], rng.randint(0, 2500), ops)
    return cases


# ------------------------------------------------------------------------------------ running
def split_blocks(out):
    """{local case number: [lines]} from harness / model output"""
    blocks, cur = {}, None
    for ln in out.splitlines():
        if ln.startswith("case "):
            try:
                cur = int(ln.split()[1])
            except (ValueError, IndexError):
                cur = None
                continue
            blocks[cur] = [ln]
        elif cur is not None:
            blocks[cur].append(ln)
    return blocks


def block_complete(b):
    return bool(b) and b[-1].startswith("rest ") and " | root=" in b[-1]


def run_c(cbin, cases, timeout=300):
    """Run the C harness on case lines.  Returns (blocks, crashes): blocks[i] = lines of case i
    (None if it crashed), crashes = {i: description}."""
    n = len(cases)
    blocks = [None] * n
    crashes = {}
    start = 0
    while start < n:
        rc, out, err = vlib.sh2([str(cbin)], stdin="\n".join(cases[start:]) + "\n", timeout=timeout, env=RUN_ENV)
        bl = split_blocks(out)
        if rc == 0:
            for j, b in bl.items():
                if 0 <= start + j < n:
                    blocks[start + j] = b
            break
        # abnormal end: the last case that was started is the culprit
        last = max(bl) if bl else 0
        for j, b in bl.items():
            if j < last and block_complete(b):
                blocks[start + j] = b
        m = re.search(r"(ERROR: AddressSanitizer: [^\n]*|runtime error: [^\n]*|TIMEOUT[^\n]*)", err + "\n" + out)
        why = m.group(1) if m else ("exit status %d" % rc)
        if rc == 124:
            why = "harness timeout"
        crashes[start + last] = (why + " | partial output: " + " / ".join((bl.get(last) or [])[-3:]))[:600]
        start = start + last + 1
        if len(crashes) >= 25:
            break
    return blocks, crashes


def model_input(blocks):
    lines = []
    for i, b in enumerate(blocks):
        if b and len(b) >= 2 and b[1].startswith("shape "):
            lines.append("case %d %s" % (i, " ".join(b[0].split()[2:])))
            lines.append(b[1])
    return "\n".join(lines) + "\n"


def run_pair(cbin, mbin, cases):
    cb, crashes = run_c(cbin, cases)
    rc, out, err = vlib.sh2([str(mbin)], stdin=model_input(cb), timeout=600)
    mb = split_blocks(out)
    return cb, crashes, mb, (rc, err[-500:])


def strip_c(b):
    return [b[0].split(" ", 2)[2]] + [ln for ln in b[1:] if not ln.startswith("#") and not ln.startswith("lower")]


def strip_m(b):
    return [b[0].split(" ", 2)[2]] + [ln for ln in b[1:] if not ln.startswith("#")]


# ------------------------------------------------------------------------------------ oracle
def parse_shape(line):
    t = line.split()
    root = int(t[1].split("=")[1])
    n = int(t[2].split("=")[1])
    nodes = {}
    for tok in t[3:]:
        a, b = tok.split(":")
        l, r, p = b.split(",")
        nodes[int(a)] = (int(l), int(r), int(p))
    return root, n, nodes


def traverse(nodes, root, mirror=False):
    """(inorder, preorder, postorder) of the dumped structure, following left/right from root
    (right/left when mirror), or None if it is not a parent-linked tree covering all nodes."""
    if root == 0:
        return ([], [], []) if not nodes else None
    if root not in nodes or nodes[root][2] != 0:
        return None
    ino, pre, post = [], [], []
    seen = set()
    stack = [(root, 0)]
    while stack:
        x, st = stack.pop()
        l, r, _ = nodes[x]
        a, b = (r, l) if mirror else (l, r)
        if st == 0:
            if x in seen:
                return None
            seen.add(x)
            pre.append(x)
            stack.append((x, 1))
            if a:
                if a not in nodes or nodes[a][2] != x:
                    return None
                stack.append((a, 0))
        elif st == 1:
            ino.append(x)
            stack.append((x, 2))
            if b:
                if b not in nodes or nodes[b][2] != x or b == a:
                    return None
                stack.append((b, 0))
        else:
            post.append(x)
    if len(seen) != len(nodes):
        return None
    return ino, pre, post


def ints(s):
    return [int(x) for x in s.split()] if s.strip() else []


def oracle(block, stats=None):
    """The property evaluated on the C harness output of one case.  Returns a list of failures."""
    fails = []
    if not block_complete(block):
        return ["incomplete output"]
    head = block[0].split()
    kind, k = head[2], int(head[3].split("=")[1])
    d = {}
    for ln in block[1:]:
        tag, _, rest = ln.partition(" ")
        d[tag] = rest
    root, n, nodes = parse_shape(block[1])
    tv = traverse(nodes, root)
    if tv is None or len(nodes) != n:
        return ["PRECONDITION: dumped structure is not a parent-linked binary tree: " + block[1][:200]]
    ino, pre, post = tv
    _, prer, postr = traverse(nodes, root, mirror=True)
    want = {"in": ino, "inr": ino[::-1], "pre": pre, "prer": prer, "post": post, "postr": postr}
    got = {}
    for tag in SEQ_TAGS:
        try:
            got[tag] = ints(d.get(tag, "LOOP"))
        except ValueError:
            got[tag] = None
        if got[tag] != want[tag]:
            fails.append("%s: foreach yields %s, documented order is %s" % (tag, d.get(tag), want[tag]))
    if d.get("lower") != "same":
        fails.append("lower-case foreach macros enumerate differently from the upper-case ones")
    # ascending / descending keys on the real containers
    if kind in "AR":
        key = dict((int(a), int(b)) for a, b in (t.split(":") for t in d.get("#keys", "").split()))
        if got["in"] is not None and all(x in key for x in got["in"]):
            ks = [key[x] for x in got["in"]]
            if any(ks[i] >= ks[i + 1] for i in range(len(ks) - 1)):
                fails.append("in: keys not strictly ascending: %s" % ks[:40])
        if got["inr"] is not None and all(x in key for x in got["inr"]):
            ks = [key[x] for x in got["inr"]]
            if any(ks[i] <= ks[i + 1] for i in range(len(ks) - 1)):
                fails.append("inr: keys not strictly descending: %s" % ks[:40])
    # single steps from every node
    stepmaps = {}
    for tag, seq in zip(STEP_TAGS, (ino, ino[::-1], pre, prer, post, postr)):
        succ = dict((seq[i], seq[i + 1] if i + 1 < len(seq) else 0) for i in range(len(seq)))
        try:
            m = dict((int(a), int(b)) for a, b in (t.split(">") for t in d.get(tag, "").split()))
        except ValueError:
            m = None
        stepmaps[tag] = m
        if m != succ:
            bad = [x for x in succ if m is None or m.get(x) != succ[x]][:3]
            fails.append("%s: step from node(s) %s gives %s, expected %s"
                         % (tag, bad, [None if m is None else m.get(x) for x in bad], [succ[x] for x in bad]))
    nx, pv = stepmaps["next"], stepmaps["prev"]
    if nx is not None and pv is not None:
        for x, y in nx.items():
            if y and pv.get(y) != x:
                fails.append("next(%d)=%d but prev(%d)=%s" % (x, y, y, pv.get(y)))
                break
        for x, y in pv.items():
            if y and nx.get(y) != x:
                fails.append("prev(%d)=%d but next(%d)=%s" % (x, y, y, nx.get(y)))
                break
    ends = [ino[0], ino[-1], post[0], postr[0]] if n else [0, 0, 0, 0]
    if d.get("ends", "").split() != [str(x) for x in ends]:
        fails.append("head/tail/post_head/post_tail = %s, expected %s" % (d.get("ends"), ends))
    # tear-down
    try:
        t1, _, st1 = d.get("tear", "").partition("|")
        t2, _, st2 = d.get("rest", "").partition("|")
        y1, y2 = ints(t1), ints(t2)
        r1 = int(re.search(r"root=(\d+)", st1).group(1))
        r2 = int(re.search(r"root=(\d+)", st2).group(1))
    except (ValueError, AttributeError):
        fails.append("tear: unparsable / non-terminating: %s || %s" % (d.get("tear"), d.get("rest")))
        return fails
    allh = y1 + y2
    if sorted(allh) != sorted(nodes):
        fails.append("tear: handed out %s, elements are %s (not exactly once each)" % (allh[:60], sorted(nodes)[:60]))
    else:
        pos = dict((x, i) for i, x in enumerate(allh))
        for x, (l, r, _) in nodes.items():
            for c in (l, r):
                if c and pos[c] > pos[x]:
                    fails.append("tear: parent %d handed out before its child %d" % (x, c))
                    break
    if len(y1) != min(k, n):
        fails.append("tear: interrupted after %d nodes, %d handed out" % (k, len(y1)))
    if r2 != 0:
        fails.append("tear: tree not empty at the end (root=%d)" % r2)
    gone = set(y1)
    rem = dict((x, (0 if l in gone else l, 0 if r in gone else r, p))
               for x, (l, r, p) in nodes.items() if x not in gone)
    rroot, rn, rnodes = parse_shape("rshape " + d.get("rshape", "root=0 n=0"))
    if rnodes != rem or rroot != (root if rem else 0) or r1 != rroot:
        fails.append("tear: after %d steps the remaining structure is %s (root %d/%d), expected the tree minus the "
                     "handed-out nodes %s" % (len(y1), d.get("rshape", "")[:200], rroot, r1, sorted(rem.items())[:20]))
    else:
        tv2 = traverse(rnodes, rroot)
        if tv2 is None:
            fails.append("tear: remaining structure is not a tree")
        else:
            for tag, seq in zip(("rin", "rpre", "rpost"), tv2):
                try:
                    g = ints(d.get(tag, "LOOP"))
                except ValueError:
                    g = None
                if g != seq:
                    fails.append("%s: iteration of the remainder yields %s, expected %s" % (tag, d.get(tag), seq))
    if stats is not None and not fails:
        branch_stats(nodes, root, n, stats)
    return fails


def branch_stats(nodes, root, n, st):
    """which branches of the model functions the nodes of this tree exercise (computed from the shape)"""
    def hit(k):
        st[k] = st.get(k, 0) + 1
    if n == 0:
        hit("empty-tree")
        return
    for x, (l, r, p) in nodes.items():
        # next
        if r:
            hit("next:descend-right-then-left" if nodes[r][0] else "next:right-child-is-successor")
        else:
            c, q, steps = x, p, 0
            while q and nodes[q][0] != c:
                c, q, steps = q, nodes[q][2], steps + 1
            hit("next:climb-to-null" if not q else ("next:parent-from-left" if steps == 0 else "next:climb>=1"))
        if l:
            hit("prev:descend-left-then-right" if nodes[l][1] else "prev:left-child-is-predecessor")
        else:
            c, q, steps = x, p, 0
            while q and nodes[q][1] != c:
                c, q, steps = q, nodes[q][2], steps + 1
            hit("prev:climb-to-null" if not q else ("prev:parent-from-right" if steps == 0 else "prev:climb>=1"))
        # pre_next
        if l:
            hit("pre_next:left")
        elif r:
            hit("pre_next:right")
        else:
            c, q, steps, kinds = x, p, 0, set()
            while q:
                ql, qr, qp = nodes[q]
                if qr and qr != c:
                    break
                kinds.add("skip-right-null" if not qr else "skip-from-right")
                c, q, steps = q, qp, steps + 1
            hit("pre_next:climb-to-null" if not q else "pre_next:climb-to-sibling")
            for kd in kinds:
                hit("pre_next:" + kd)
        if r:
            hit("pre_prev:right")
        elif l:
            hit("pre_prev:left")
        else:
            c, q, kinds = x, p, set()
            while q:
                ql, qr, qp = nodes[q]
                if ql and ql != c:
                    break
                kinds.add("skip-left-null" if not ql else "skip-from-left")
                c, q = q, qp
            hit("pre_prev:climb-to-null" if not q else "pre_prev:climb-to-sibling")
            for kd in kinds:
                hit("pre_prev:" + kd)
        # post_next / post_prev
        if not p:
            hit("post_next:root")
            hit("post_prev:root")
        else:
            pl, pr_, _ = nodes[p]
            if not pr_:
                hit("post_next:parent-no-right")
            elif pr_ == x:
                hit("post_next:from-right")
            else:
                hit("post_next:descend-sibling" + ("-deep" if (nodes[pr_][0] or nodes[pr_][1]) else "-leaf"))
            if not pl:
                hit("post_prev:parent-no-left")
            elif pl == x:
                hit("post_prev:from-left")
            else:
                hit("post_prev:descend-sibling" + ("-deep" if (nodes[pl][0] or nodes[pl][1]) else "-leaf"))
        # tear (every node is torn once as a leaf of the remaining tree)
        if not p:
            hit("tear:root")
        elif nodes[p][0] == x:
            hit("tear:unlink-left")
        else:
            hit("tear:unlink-right")


ALL_BRANCHES = """next:descend-right-then-left next:right-child-is-successor next:climb-to-null next:parent-from-left
next:climb>=1 prev:descend-left-then-right prev:left-child-is-predecessor prev:climb-to-null prev:parent-from-right
prev:climb>=1 pre_next:left pre_next:right pre_next:climb-to-null pre_next:climb-to-sibling pre_next:skip-right-null
pre_next:skip-from-right pre_prev:right pre_prev:left pre_prev:climb-to-null pre_prev:climb-to-sibling
pre_prev:skip-left-null pre_prev:skip-from-left post_next:root post_next:parent-no-right post_next:from-right
post_next:descend-sibling-deep post_next:descend-sibling-leaf post_prev:root post_prev:parent-no-left
post_prev:from-left post_prev:descend-sibling-deep post_prev:descend-sibling-leaf tear:root tear:unlink-left
tear:unlink-right empty-tree""".split()


def struct_key(nodes, root):
    """id-free canonical form of a shape"""
    out, st = [], [root]
    while st:
        x = st.pop()
        if not x:
            out.append("0")
            continue
        out.append("1")
        st.append(nodes[x][1])
        st.append(nodes[x][0])
    return "".join(out)


# ------------------------------------------------------------------------------------ shrinking
def c_fails(cbin, case):
    """run one case on the C harness; returns a failure description or None"""
    cb, crashes = run_c(cbin, [case], timeout=60)
    if crashes:
        return "sanitizer/crash: " + list(crashes.values())[0]
    if cb[0] is None:
        return "no output"
    f = oracle(cb[0])
    f = [x for x in f if not x.startswith("PRECONDITION")]
    return f[0] if f else None


def shrink(cbin, case):
    kind, k, *ops = case.split()
    k = int(k)

    def mk(kk, oo):
        return "%s %d %s" % (kind, kk, " ".join(oo))
    ops = vlib.ddmin(ops, lambda oo: c_fails(cbin, mk(k, oo)) is not None, max_tests=250)
    for kk in sorted(set([0, 1, 2, len(ops) // 2, len(ops) - 1, len(ops)])):
        if 0 <= kk < k and c_fails(cbin, mk(kk, ops)) is not None:
            k = kk
            break
    ops = vlib.ddmin(ops, lambda oo: c_fails(cbin, mk(k, oo)) is not None, max_tests=120)
    return mk(k, ops)


def failure_class(what, case):
    kind = case.split()[0]
    fam = {"A": "avl", "a": "avl", "R": "rbt", "r": "rbt"}.get(kind, kind)
    tag = re.sub(r"[^A-Za-z_]+", "-", what.split(":")[0]).strip("-")[:24]
    return "%s/%s" % (fam, tag)


def report_case(ctx, cbin, case, why, cls, reported):
    small = shrink(cbin, case)
    what = c_fails(cbin, small) or why
    cls2 = failure_class(what, small)
    if cls2 != cls and cls2 in reported:
        return          # the shrunk input shows a failure that has been reported already
    reported.add(cls2)
    cls = cls2
    cb, crashes = run_c(cbin, [small], timeout=60)
    ctx.report(key="C03/" + cls, what="%s  [failing input: %s]" % (what, small),
               replay={"case": small, "original_case": case if len(case) < 4000 else case[:4000] + "...",
                       "failure": what, "c_output": cb[0], "crash": list(crashes.values()),
                       "format": "<kind A=avl R=rbt a/r=hand-linked> <k: tear interrupted after k nodes> ops: "
                                 "i<id>:<key> insert, d<id> remove, t<id> root, l<id>:<parent> left child, g<id>:<parent> right child",
                       "how": "python3 tools/vcheck.py C03 --replay <this file>   (or: echo '<case>' | build/C03/drv)"},
               found_input=True)


# ------------------------------------------------------------------------------------ the check
def build(ctx):
    cbin = ctx.cc("drv", [H / "drv.c"], repo_srcs=["avl.c", "rbt.c"], mode="asan")
    ml = ctx.extract("C03/Extract.v", ["C03/extracted/iter.ml", "C03/extracted/iter.mli"])
    mbin = ctx.ocaml_build("mdrv", ml[::-1] + [H / "mdrv.ml"])
    return cbin, mbin


def work(args):
    """One task, run in a worker process: generate, run C and model, compare, evaluate the oracle."""
    task, cbin, mbin = args
    tag = task[0]
    cases = gen_task(task)
    res = {"tag": tag, "n_cases": len(cases), "n_cmp": 0, "n_lines": 0, "n_steps": 0, "n_diff": 0, "not_wf": 0,
           "stats": {}, "sizes": {}, "shapes": set(), "suspects": [], "broken": [], "samples": []}
    for off in range(0, len(cases), 1500):
        cs = cases[off:off + 1500]
        cb, crashes, mb, (mrc, merr) = run_pair(cbin, mbin, cs)
        if mrc != 0:
            res["broken"].append("model driver failed (rc %d): %s" % (mrc, merr))
        for j, why in crashes.items():
            res["suspects"].append((cs[j], "sanitizer/crash: " + why))
            res["broken"].append("C harness aborted on case `%s`: %s" % (cs[j][:100], why[:200]))
        for j, case in enumerate(cs):
            b = cb[j]
            if b is None:
                if j not in crashes:
                    res["broken"].append("no C output for case `%s`" % case[:100])
                continue
            m = mb.get(j)
            res["n_cmp"] += 1
            sc = strip_c(b)
            if m is None or sc != strip_m(m):
                res["n_diff"] += 1
                if res["n_diff"] <= 2:
                    sm = strip_m(m) if m else []
                    i = vlib.first_diff(sc, sm)
                    res["broken"].append("correspondence: case `%s` differs at line %s: C `%s` / model `%s`"
                                         % (case[:80], i, sc[i][:120] if i is not None and i < len(sc) else None,
                                            sm[i][:120] if i is not None and i < len(sm) else None))
                res["suspects"].append((case, "differs from model"))
            if m is not None and "#wf 1" not in m[:4]:
                res["not_wf"] += 1
            res["n_lines"] += len(sc)
            f = oracle(b, res["stats"])
            if f:
                res["suspects"].append((case, f[0]))
                if f[0].startswith("PRECONDITION"):
                    res["broken"].append("case `%s`: %s" % (case[:100], f[0][:300]))
            root, n, nodes = parse_shape(b[1])
            res["n_steps"] += 15 * n
            bucket = "0" if n == 0 else "1" if n == 1 else "2-7" if n <= 7 else "8-63" if n <= 63 else "64+"
            kd = b[0].split()[2] + ":" + bucket
            res["sizes"][kd] = res["sizes"].get(kd, 0) + 1
            if n >= 2:
                res["shapes"].add(hashlib.md5(struct_key(nodes, root).encode()).digest()[:8])
            if n >= 4 and len(res["samples"]) < 1 and (off + j) % 7 == 3:
                res["samples"].append({"group": tag, "case": case[:160], "shape": b[1][:200],
                                       "post": [x for x in b if x.startswith("post ")][0][:80],
                                       "tear": [x for x in b if x.startswith("tear")][0][:80]})
    res["suspects"] = res["suspects"][:40]
    return res


def run(ctx):
    from concurrent.futures import ProcessPoolExecutor
    if not ctx.quick:
        # thorough: rebuild this property's Rocq files from clean
        for vo in list((vlib.COQ / "C03").glob("*.vo")) + [vlib.COQ / "Properties_C03.vo"]:
            try:
                vo.unlink()
            except OSError:
                pass
    ctx.prove()
    ok, outs, failed = ctx.coq_build(["C03/IterExamples.v"], timeout=600)
    if not ok:
        ctx.tie_broken("non-vacuity examples no longer check: %s" % " ".join(outs.get("C03/IterExamples.v", "").split())[-400:])
    chk = None
    if not ctx.quick:
        # independent re-check of the compiled theorems with coqchk, concurrently with the correspondence
        import subprocess
        chk = subprocess.Popen(["timeout", "600", "coqchk", "-silent", "-o", "-Q", ".", "LibaV", "LibaV.Properties_C03"],
                               cwd=str(vlib.COQ), stdout=subprocess.PIPE, stderr=subprocess.STDOUT, text=True)
    cbin, mbin = build(ctx)
    # second node layout of the same sources (the #else /* !A_SIZE_POINTER */ arms of avl.[hc] / rbt.[hc]: separate parent and
    # factor / color fields): the trees the iterators walk are built by the real insert / remove of that layout too
    cfg1 = ctx.build / "cfg_unpacked.h"
    txt1 = ctx.cfg_header().read_text().replace("#define A_SIZE_POINTER 8", "#define A_SIZE_POINTER 1")
    if "#define A_SIZE_POINTER 1" not in txt1:
        raise vlib.CheckError("cannot derive the unpacked configuration header")
    if not cfg1.exists() or cfg1.read_text() != txt1:
        cfg1.write_text(txt1)
    ubin = ctx.cc("drv_unpacked", [H / "drv.c"], repo_srcs=["avl.c", "rbt.c"], mode="asan", defines=['A_HAVE_H="%s"' % cfg1])
    tasks = plan(ctx)
    utasks = tasks[::3] if ctx.quick else tasks
    nw = max(2, min(vlib.NPROC // 2, 8))
    with ProcessPoolExecutor(max_workers=nw) as ex:
        pending = ex.map(work, [(t, str(cbin), str(mbin)) for t in tasks] + [(t, str(ubin), str(mbin)) for t in utasks])
        # second tie (translator), while the workers run the correspondence: the navigation functions and tear of avl.c / rbt.c are
        # REGENERATED from the current sources by tools/c2nav.py (both node layouts) and proved equal to the model of IterDefs.v
        # (harness/C03/TieNav.v) for every reader, fuel and argument
        vnav.nav_translate_and_tie(ctx)
        results = list(pending)
    ctx.log("harness and model ran: %d tasks on %d workers" % (len(tasks), nw))

    stats, sizes, shapes_seen, dist = {}, {}, set(), {}
    n_cmp = n_lines = n_steps = n_diff = not_wf = 0
    suspects = []
    ctx.cov["node_layouts"] = {"packed": len(tasks), "unpacked": len(utasks)}
    for ri, r in enumerate(results):
        unp = ri >= len(tasks)
        if unp:
            r["suspects"] = [(c, w, True) for c, w in r["suspects"]]
            r["broken"] = ["[unpacked node layout] " + b for b in r["broken"]]
        dist[r["tag"]] = dist.get(r["tag"], 0) + r["n_cases"]
        n_cmp += r["n_cmp"]
        n_lines += r["n_lines"]
        n_steps += r["n_steps"]
        n_diff += r["n_diff"]
        not_wf += r["not_wf"]
        for k, v in r["stats"].items():
            stats[k] = stats.get(k, 0) + v
        for k, v in r["sizes"].items():
            sizes[k] = sizes.get(k, 0) + v
        shapes_seen |= r["shapes"]
        suspects += r["suspects"]
        for b in r["broken"][:3]:
            if len(ctx.broken_ties) < 12:
                ctx.tie_broken(b)
            else:
                ctx.broken_ties.append(b)
        for smp in r["samples"]:
            ctx.sample(smp, limit=8)
    if n_diff:
        ctx.tie_broken("correspondence: %d of %d trees differ between C and model" % (n_diff, n_cmp))
    if not_wf:
        ctx.tie_broken("%d dumped heaps are not parent-linked trees with distinct ids according to the model's wf_heap "
                       "(the hypotheses Repr/NoDup/hsub of the theorems do not apply to them)" % not_wf)

    # search: every suspect case (disagreement, oracle failure, crash) is re-run alone; real failures of the
    # property are shrunk and reported once per failure class
    reported = set()
    tried = 0
    # failing inputs on the real containers (insert/remove histories) first, hand-linked shapes after; short first
    for sus in sorted(suspects, key=lambda cw: (cw[0][:1] not in "AR", len(cw[0]))):
        case, why = sus[0], sus[1]
        binp = ubin if len(sus) > 2 else cbin
        if tried >= 40 or len(reported) >= 5:
            break
        tried += 1
        w = c_fails(binp, case)
        if w is None:
            continue
        cls = failure_class(w, case) + ("/unpacked-layout" if binp is ubin else "")
        if cls in reported:
            continue
        reported.add(cls)
        report_case(ctx, binp, case, w + (" [unpacked node layout, A_SIZE_POINTER 1]" if binp is ubin else ""), cls, reported)

    if chk is not None:
        out = chk.communicate()[0]
        if chk.returncode != 0 or "Axioms: <none>" not in out:
            ctx.tie_broken("coqchk on LibaV.Properties_C03 failed or reports axioms: " + " ".join(out.split())[-400:])
        else:
            ctx.cov["trusted_base"].append("coqchk -o LibaV.Properties_C03: accepted, Axioms: <none>")
            ctx.cov["checker_cmd"] += "; thorough: .vo of this property rebuilt from clean and re-checked with coqchk -o"

    missing = [b for b in ALL_BRANCHES if b not in stats]
    ctx.count(evaluations=n_cmp, nontrivial=len(shapes_seen))
    ctx.cov["rule"] = ("evaluations = trees on which the C (AVL and RB built by insert/remove histories; hand-linked trees "
                       "of both node types) and the extracted model were compared on all 8 foreach sequences, 6 single "
                       "steps from every node, 4 end points, interrupted + resumed tear with free(), remaining shape and "
                       "its 3 iterations; distinct_nontrivial = distinct id-free tree shapes with >= 2 nodes among them")
    ctx.cov["lines_compared"] = n_lines
    ctx.cov["node_steps_compared"] = n_steps
    ctx.cov["case_distribution"] = dist
    ctx.cov["tree_kind_and_size"] = dict(sorted(sizes.items()))
    ctx.cov["branch_hits"] = dict(sorted(stats.items()))
    ctx.cov["branches_not_reached"] = missing
    ctx.cov["branch_rule"] = ("branch_hits: for every node of every compared tree, the branch of each model function "
                              "(IterDefs.v case split) that a step from that node takes, computed from the dumped shape")
    ctx.cov["disagreements"] = n_diff
    ctx.cov["trusted_base"] += [
        "extraction (ExtrOcamlBasic only) and harness/C03/mdrv.ml (int<->positive/nat, parsing, printing)",
        "harness/C03/drv.c + body.h (builds the trees, dumps left/right/parent, runs the macros); ASan/UBSan as observers of reads after free",
        "C semantics / compiler; the pointer code is tied to the model by differential comparison and, for the navigation functions, "
        "tear and the iteration macros, by the translator c2nav (trusted as a reading of the C)"]
    if missing:
        ctx.notes.append("model branches not reached in this run: " + ", ".join(missing))
    ctx.log("compared %d trees (%d lines, %d distinct shapes), %d disagreements, branches not reached: %s"
            % (n_cmp, n_lines, len(shapes_seen), n_diff, missing or "none"))


def replay(ctx, path):
    import json
    obj = json.loads(Path(path).read_text())
    case = obj["replay"]["case"]
    cbin, mbin = build(ctx)
    cb, crashes, mb, _ = run_pair(cbin, mbin, [case])
    print("case:", case)
    for ln in (cb[0] or []):
        print("  C    ", ln)
    for ln in (mb.get(0) or []):
        print("  model", ln)
    w = c_fails(cbin, case)
    print("failure:", w, crashes)
    return 1 if w else 0


META = {
    "text": "Rocq theorems for EVERY binary tree with distinct node ids (a superset of all AVL/red-black reachable shapes) "
            "represented in a parent-linked heap: in-order foreach = inorder list, reverse = its reverse, ascending/descending "
            "keys on any search tree, next/prev mutually inverse, the four pre/post loops yield exactly root-left-right, "
            "root-right-left, left-right-root, right-left-root, iteration from any node yields the rest of its order, every "
            "order visits each element exactly once, fortear hands out postorder (children before parents) without ever "
            "reading a freed node (a read of a removed id is a stuck model), leaves the tree empty, and after ANY k steps the "
            "remaining heap is again a tree holding exactly the rest. The same is proved for a tear-down STARTED AT ANY NODE x "
            "(*next = x, as the header documents): never stuck, every node exactly once and after all nodes of its subtrees, in "
            "exactly the order postorder(subtree of x) followed, for each ancestor in turn, by the postorder of its other subtree "
            "(left or right) and the ancestor; tree, saved next and heap empty at the end; a tree of exactly the rest after ANY k "
            "steps, resumable. Tie 1: extracted model vs the real iterator macros on "
            "real AVL and RB trees plus hand-linked shapes, ASan with free() in tear. Tie 2 (translator tools/c2nav.py): "
            "a_avl_/a_rbt_ head, tail, next, prev, pre_next, pre_prev, post_head, post_tail, post_next, post_prev and tear (with "
            "new_child) are regenerated from the current avl.c / rbt.c / avl.h / rbt.h on every run, in both node layouts, and "
            "each is proved equal to the model function the theorems are about, for every heap, fuel and argument; the 28 iteration macros "
            "of avl.h / rbt.h (a_avl_foreach ... A_RBT_FORTEAR), expanded by clang around a visit (fortear: visit and free), are "
            "regenerated too and proved equal to the model's foreach / ... / post_foreach_reverse enumerations and to the complete "
            "fortear run, for every heap, fuel and root.",
    "note": "Trusted: Coq kernel; extraction (ExtrOcamlBasic only) + drivers; the translator tools/c2nav.py as a reading of the "
            "C (pointers = option id, null or dangling dereference = Stuck, `parent_ & ~tag bits` / `parent` = the model's parent "
            "field, root->node and the caller's *next as separate cells that do not alias the nodes, one unit of fuel per loop "
            "iteration) - not as a statement about the model: its output is proved equal to the hand-written model on every run "
            "(100 tie theorems = (22 functions + 28 iteration macros) x 2 layouts, closed under the global context), so a change of "
            "the navigation code or of a macro breaks a named tie theorem, and independently the model is run on the shape dumped from the C (differential "
            "testing on all shapes <= 7 (thorough 10) nodes, all insertion orders of <= 6 (7) keys, large directed and random "
            "shapes). The macros are translated in a unit file whose loop body is `visit(cur)` (fortear: `visit(cur); free(cur)`, free "
            "= removal from the model heap, checked); the fortear tie is to the uninterrupted loop (coq/C03/NavLemmas.v: equal to the "
            "model's fortear fuel k whenever that run ends because tear returned null, in particular on C03_tear_complete), the "
            "INTERRUPTED tear-down (a `break` in the caller's body) stays correspondence-only, as does a_avl_entry/a_rbt_entry. 'The C reads nothing freed' is observed by ASan and, for the translated functions, follows "
            "from the tie (a read of a removed id is Stuck in the generated code too); removing a node from the model heap "
            "stands for the caller's free(). No axioms.",
    "technique": "Rocq proof (zipper contexts over a heap representation predicate, structural induction) + translator tie (C navigation functions regenerated into Gallina and proved equal to the model on every run) + extracted-model vs C iterator-sequence correspondence",
}
