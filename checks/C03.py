"""C03 - tree iterators and tear-down (src/avl.c, src/rbt.c, include/a/avl.h, include/a/rbt.h).

  prove : coq/Properties_C03.v (theorems about the model coq/C03/IterDefs.v, for every binary tree
          with distinct ids).
  tie   : the C harness (harness/C03/drv.c, ASan+UBSan, every node its own malloc block, free() of
          each node tear hands out) builds real AVL / RB trees by insert/remove histories (and
          hand-linked trees of arbitrary shape), dumps the shape (root; left/right/parent per id)
          and prints the id sequence of every foreach macro, every single step from every node,
          head/tail/post_head/post_tail, a tear-down interrupted after k nodes, the remaining
          structure, its iterations, and the resumed tear-down.  The EXTRACTED Gallina model
          (harness/C03/mdrv.ml + coq/C03/extracted/iter.ml) reads only the dumped shape, runs the
          model's iterators/tear on that heap, and must print the same lines.
  oracle: the property itself evaluated on what the C printed (recursive traversals of the dump,
          ascending keys, next/prev inverse, exactly-once, children before parents, remaining
          structure is the restriction of the tree, final root null); ASan/UBSan aborts, crashes
          and non-termination count as failures.  Failing cases are shrunk (ddmin on the ops, then k).
"""
import os
import random
import re
from concurrent.futures import ThreadPoolExecutor
from pathlib import Path

try:
    from tools import vlib
except ImportError:  # pragma: no cover
    import vlib

H = vlib.VERIF / "harness" / "C03"
CORPUS = vlib.VERIF / "corpus" / "C03"
RUN_ENV = {"ASAN_OPTIONS": "detect_leaks=0:abort_on_error=0:allocator_may_return_null=1",
           "UBSAN_OPTIONS": "print_stacktrace=0"}
SEQ_TAGS = ("in", "inr", "pre", "prer", "post", "postr")
STEP_TAGS = ("next", "prev", "pnext", "pprev", "qnext", "qprev")


# ------------------------------------------------------------------------------------ generators
def shapes(n, memo={}):
    """all binary tree shapes with n nodes, as nested tuples (left, right) / None"""
    if n in memo:
        return memo[n]
    if n == 0:
        res = [None]
    else:
        res = []
        for a in range(n):
            for l in shapes(a):
                for r in shapes(n - 1 - a):
                    res.append((l, r))
    memo[n] = res
    return res


def raw_ops(shape, ids):
    """ops that hand-link `shape`; ids: iterator of fresh ids (parents before children)"""
    ops = []
    stack = [(shape, 0, "t")]
    while stack:
        s, pid, how = stack.pop()
        if s is None:
            continue
        me = next(ids)
        ops.append("t%d" % me if how == "t" else "%s%d:%d" % (how, me, pid))
        stack.append((s[1], me, "g"))
        stack.append((s[0], me, "l"))
    return ops


def id_stream(rng, n):
    l = rng.sample(range(1, 3 * n + 8), n)
    return iter(l)


def chain(n, pat):
    """a path of n nodes; pat(i) in 'lr' says on which side node i+1 hangs"""
    s = None
    for i in range(n - 1, -1, -1):
        if s is None:
            s = (None, None)
        else:
            s = (s, None) if pat(i) == "l" else (None, s)
    return s


def fib_tree(h, lean):
    if h <= 0:
        return None
    if h == 1:
        return (None, None)
    a, b = fib_tree(h - 1, lean), fib_tree(h - 2, lean)
    return (a, b) if lean == "l" else (b, a)


def complete(h):
    return None if h == 0 else (complete(h - 1), complete(h - 1))


def random_shape(rng, n):
    """shape of the (unbalanced) BST obtained by inserting a random permutation"""
    keys = list(range(n))
    rng.shuffle(keys)
    left, right = {}, {}
    root = None
    for k in keys:
        if root is None:
            root = k
            continue
        c = root
        while True:
            if k < c:
                if c in left:
                    c = left[c]
                else:
                    left[c] = k
                    break
            else:
                if c in right:
                    c = right[c]
                else:
                    right[c] = k
                    break
    # build nested tuples iteratively (post-order)
    built = {}
    stack = [(root, False)]
    while stack:
        x, done = stack.pop()
        if x is None:
            continue
        if done:
            built[x] = (built.get(left.get(x)), built.get(right.get(x)))
        else:
            stack.append((x, True))
            stack.append((left.get(x), False))
            stack.append((right.get(x), False))
    return built.get(root)


def shape_size(s):
    n, st = 0, [s]
    while st:
        x = st.pop()
        if x is not None:
            n += 1
            st.append(x[0])
            st.append(x[1])
    return n


def pick_k(rng, n, i):
    c = [0, 1, n - 1, n, n + 1, n // 2, rng.randint(0, n + 1), rng.randint(0, n + 1)]
    return max(0, c[i % len(c)])


def history(rng, length, krange, pdel):
    ops, live, used = [], [], set()
    nid = 0
    idpool = rng.sample(range(1, 4 * length + 8), length)
    for _ in range(length):
        if live and rng.random() < pdel:
            j = rng.randrange(len(live))
            live[j], live[-1] = live[-1], live[j]
            ops.append("d%d" % live.pop())
        else:
            i = idpool[nid]
            nid += 1
            ops.append("i%d:%d" % (i, rng.randrange(krange)))
            live.append(i)     # may be a rejected duplicate; a later d<id> is then a no-op
    return ops


def gen_cases(ctx):
    from itertools import permutations
    quick = ctx.quick
    cases, dist = [], {}

    def add(kind, k, ops, tag):
        cases.append("%s %d %s" % (kind, k, " ".join(ops)))
        dist[tag] = dist.get(tag, 0) + 1

    # 0. corpus first
    if CORPUS.is_dir():
        for f in sorted(CORPUS.glob("*.txt")):
            for ln in f.read_text().splitlines():
                ln = ln.strip()
                if ln and not ln.startswith("#"):
                    cases.append(ln)
                    dist["corpus"] = dist.get("corpus", 0) + 1

    # 1. every insertion order of <= N distinct keys, AVL and RB, k cycling over 0..n+1
    rng = random.Random(ctx.subseed("orders"))
    nmax = 5 if quick else 7
    c = 0
    for n in range(0, nmax + 1):
        for perm in permutations(range(n)):
            ids = rng.sample(range(1, 3 * n + 8), n)
            ops = ["i%d:%d" % (ids[j], 10 * perm[j] + 5) for j in range(n)]
            for kind in "AR":
                add(kind, c % (n + 2), ops, "all-insert-orders")
                c += 1
    # 1b. all insertion orders of N keys followed by removals (shapes only removal reaches)
    rng = random.Random(ctx.subseed("removals"))
    nrm = 6 if quick else 8
    cnt = 150 if quick else 6000
    for _ in range(cnt):
        n = rng.randint(3, nrm + 4)
        keys = list(range(n))
        rng.shuffle(keys)
        ids = rng.sample(range(1, 3 * n + 8), n)
        ops = ["i%d:%d" % (ids[j], keys[j]) for j in range(n)]
        dels = rng.sample(ids, rng.randint(1, n - 1))
        ops += ["d%d" % d for d in dels]
        add(rng.choice("AR"), pick_k(rng, n - len(dels), rng.randrange(8)), ops, "insert-then-remove")

    # 2. every binary tree shape with <= M nodes, hand-linked (both node types), ids permuted
    rng = random.Random(ctx.subseed("shapes"))
    mmax = 6 if quick else 9
    c = 0
    for n in range(1, mmax + 1):
        for s in shapes(n):
            for kind in ("ar" if (quick or n <= 7) else ("a" if c % 2 else "r")):
                add(kind, c % (n + 2), raw_ops(s, id_stream(rng, n)), "all-shapes")
                c += 1

    # 3. directed shapes: chains (long climbs), zigzags, combs, Fibonacci (minimal AVL), complete
    rng = random.Random(ctx.subseed("directed"))
    big = [1, 2, 3, 17, 64] if quick else [1, 2, 3, 17, 64, 257, 1500]
    directed = []
    for n in big:
        directed += [chain(n, lambda i: "l"), chain(n, lambda i: "r"),
                     chain(n, lambda i: "lr"[i % 2]), chain(n, lambda i: "rl"[i % 2]),
                     chain(n, lambda i: "llr"[i % 3]), chain(n, lambda i: "rrl"[i % 3])]
    for h in (range(1, 8) if quick else range(1, 15)):
        directed += [fib_tree(h, "l"), fib_tree(h, "r")]
    for h in (range(1, 6) if quick else range(1, 11)):
        directed.append(complete(h))
    for i, s in enumerate(directed):
        n = shape_size(s)
        for j, kind in enumerate("ar"):
            add(kind, pick_k(rng, n, i + j), raw_ops(s, id_stream(rng, n)), "directed-shapes")
    # combs: spine with leaves on the other side (missing-sibling cases on the climb path)
    for n in ([4, 9, 30] if quick else [4, 9, 30, 200, 900]):
        for side in "lr":
            s = None
            for i in range(n):
                leaf = (None, None) if i % 2 == 0 else None
                s = (s, leaf) if side == "l" else (leaf, s)
            m = shape_size(s)
            add("ar"[n % 2], pick_k(rng, m, n), raw_ops(s, id_stream(rng, m)), "directed-shapes")

    # 4. random unbalanced shapes
    rng = random.Random(ctx.subseed("randshapes"))
    for i in range(300 if quick else 20000):
        n = rng.choice([2, 3, 5, 8, 13, 21, 40]) if rng.random() < 0.9 else rng.randint(41, 120 if quick else 400)
        s = random_shape(rng, n)
        add("ar"[i % 2], pick_k(rng, n, i), raw_ops(s, id_stream(rng, n)), "random-shapes")

    # 5. random insert/remove/duplicate histories on the real containers
    rng = random.Random(ctx.subseed("histories"))
    for i in range(700 if quick else 60000):
        r = rng.random()
        if r < 0.55:
            length = rng.randint(1, 24)
        elif r < 0.9:
            length = rng.randint(25, 120)
        else:
            length = rng.randint(121, 400 if quick else 1500)
        krange = rng.choice([8, 64, 1 << 20]) if length < 200 else rng.choice([64, 1 << 20])
        ops = history(rng, length, krange, rng.choice([0.0, 0.2, 0.35, 0.5]))
        add("AR"[i % 2], pick_k(rng, min(length, krange), i), ops, "random-histories")
    if not quick:
        for i in range(12):
            ops = history(rng, 4096, 1 << 20, [0.1, 0.3, 0.45][i % 3])
            add("AR"[i % 2], rng.randint(0, 2500), ops, "random-histories")
    return cases, dist


# ------------------------------------------------------------------------------------ running
def split_blocks(out):
    """{local case number: [lines]} from harness / model output"""
    blocks, cur = {}, None
    for ln in out.splitlines():
        if ln.startswith("case "):
            try:
                cur = int(ln.split()[1])
            except (ValueError, IndexError):
                cur = None
                continue
            blocks[cur] = [ln]
        elif cur is not None:
            blocks[cur].append(ln)
    return blocks


def block_complete(b):
    return bool(b) and b[-1].startswith("rest ") and " | root=" in b[-1]


def run_c(cbin, cases, timeout=300):
    """Run the C harness on case lines.  Returns (blocks, crashes): blocks[i] = lines of case i
    (None if it crashed), crashes = {i: description}."""
    n = len(cases)
    blocks = [None] * n
    crashes = {}
    start = 0
    while start < n:
        rc, out, err = vlib.sh2([str(cbin)], stdin="\n".join(cases[start:]) + "\n", timeout=timeout, env=RUN_ENV)
        bl = split_blocks(out)
        if rc == 0:
            for j, b in bl.items():
                if 0 <= start + j < n:
                    blocks[start + j] = b
            break
        # abnormal end: the last case that was started is the culprit
        last = max(bl) if bl else 0
        for j, b in bl.items():
            if j < last and block_complete(b):
                blocks[start + j] = b
        m = re.search(r"(ERROR: AddressSanitizer: [^\n]*|runtime error: [^\n]*|TIMEOUT[^\n]*)", err + "\n" + out)
        why = m.group(1) if m else ("exit status %d" % rc)
        if rc == 124:
            why = "harness timeout"
        crashes[start + last] = (why + " | partial output: " + " / ".join((bl.get(last) or [])[-3:]))[:600]
        start = start + last + 1
        if len(crashes) >= 25:
            break
    return blocks, crashes


def model_input(blocks):
    lines = []
    for i, b in enumerate(blocks):
        if b and len(b) >= 2 and b[1].startswith("shape "):
            lines.append("case %d %s" % (i, " ".join(b[0].split()[2:])))
            lines.append(b[1])
    return "\n".join(lines) + "\n"


def run_pair(cbin, mbin, cases):
    cb, crashes = run_c(cbin, cases)
    rc, out, err = vlib.sh2([str(mbin)], stdin=model_input(cb), timeout=600)
    mb = split_blocks(out)
    return cb, crashes, mb, (rc, err[-500:])


def strip_c(b):
    return [b[0].split(" ", 2)[2]] + [ln for ln in b[1:] if not ln.startswith("#") and not ln.startswith("lower")]


def strip_m(b):
    return [b[0].split(" ", 2)[2]] + [ln for ln in b[1:] if not ln.startswith("#")]


# ------------------------------------------------------------------------------------ oracle
def parse_shape(line):
    t = line.split()
    root = int(t[1].split("=")[1])
    n = int(t[2].split("=")[1])
    nodes = {}
    for tok in t[3:]:
        a, b = tok.split(":")
        l, r, p = b.split(",")
        nodes[int(a)] = (int(l), int(r), int(p))
    return root, n, nodes


def traverse(nodes, root, mirror=False):
    """(inorder, preorder, postorder) of the dumped structure, following left/right from root
    (right/left when mirror), or None if it is not a parent-linked tree covering all nodes."""
    if root == 0:
        return ([], [], []) if not nodes else None
    if root not in nodes or nodes[root][2] != 0:
        return None
    ino, pre, post = [], [], []
    seen = set()
    stack = [(root, 0)]
    while stack:
        x, st = stack.pop()
        l, r, _ = nodes[x]
        a, b = (r, l) if mirror else (l, r)
        if st == 0:
            if x in seen:
                return None
            seen.add(x)
            pre.append(x)
            stack.append((x, 1))
            if a:
                if a not in nodes or nodes[a][2] != x:
                    return None
                stack.append((a, 0))
        elif st == 1:
            ino.append(x)
            stack.append((x, 2))
            if b:
                if b not in nodes or nodes[b][2] != x or b == a:
                    return None
                stack.append((b, 0))
        else:
            post.append(x)
    if len(seen) != len(nodes):
        return None
    return ino, pre, post


def ints(s):
    return [int(x) for x in s.split()] if s.strip() else []


def oracle(block, stats=None):
    """The property evaluated on the C harness output of one case.  Returns a list of failures."""
    fails = []
    if not block_complete(block):
        return ["incomplete output"]
    head = block[0].split()
    kind, k = head[2], int(head[3].split("=")[1])
    d = {}
    for ln in block[1:]:
        tag, _, rest = ln.partition(" ")
        d[tag] = rest
    root, n, nodes = parse_shape(block[1])
    tv = traverse(nodes, root)
    if tv is None or len(nodes) != n:
        return ["PRECONDITION: dumped structure is not a parent-linked binary tree: " + block[1][:200]]
    ino, pre, post = tv
    _, prer, postr = traverse(nodes, root, mirror=True)
    want = {"in": ino, "inr": ino[::-1], "pre": pre, "prer": prer, "post": post, "postr": postr}
    got = {}
    for tag in SEQ_TAGS:
        try:
            got[tag] = ints(d.get(tag, "LOOP"))
        except ValueError:
            got[tag] = None
        if got[tag] != want[tag]:
            fails.append("%s: foreach yields %s, documented order is %s" % (tag, d.get(tag), want[tag]))
    if d.get("lower") != "same":
        fails.append("lower-case foreach macros enumerate differently from the upper-case ones")
    # ascending / descending keys on the real containers
    if kind in "AR":
        key = dict((int(a), int(b)) for a, b in (t.split(":") for t in d.get("#keys", "").split()))
        if got["in"] is not None and all(x in key for x in got["in"]):
            ks = [key[x] for x in got["in"]]
            if any(ks[i] >= ks[i + 1] for i in range(len(ks) - 1)):
                fails.append("in: keys not strictly ascending: %s" % ks[:40])
        if got["inr"] is not None and all(x in key for x in got["inr"]):
            ks = [key[x] for x in got["inr"]]
            if any(ks[i] <= ks[i + 1] for i in range(len(ks) - 1)):
                fails.append("inr: keys not strictly descending: %s" % ks[:40])
    # single steps from every node
    stepmaps = {}
    for tag, seq in zip(STEP_TAGS, (ino, ino[::-1], pre, prer, post, postr)):
        succ = dict((seq[i], seq[i + 1] if i + 1 < len(seq) else 0) for i in range(len(seq)))
        try:
            m = dict((int(a), int(b)) for a, b in (t.split(">") for t in d.get(tag, "").split()))
        except ValueError:
            m = None
        stepmaps[tag] = m
        if m != succ:
            bad = [x for x in succ if m is None or m.get(x) != succ[x]][:3]
            fails.append("%s: step from node(s) %s gives %s, expected %s"
                         % (tag, bad, [None if m is None else m.get(x) for x in bad], [succ[x] for x in bad]))
    nx, pv = stepmaps["next"], stepmaps["prev"]
    if nx is not None and pv is not None:
        for x, y in nx.items():
            if y and pv.get(y) != x:
                fails.append("next(%d)=%d but prev(%d)=%s" % (x, y, y, pv.get(y)))
                break
        for x, y in pv.items():
            if y and nx.get(y) != x:
                fails.append("prev(%d)=%d but next(%d)=%s" % (x, y, y, nx.get(y)))
                break
    ends = [ino[0], ino[-1], post[0], postr[0]] if n else [0, 0, 0, 0]
    if d.get("ends", "").split() != [str(x) for x in ends]:
        fails.append("head/tail/post_head/post_tail = %s, expected %s" % (d.get("ends"), ends))
    # tear-down
    try:
        t1, _, st1 = d.get("tear", "").partition("|")
        t2, _, st2 = d.get("rest", "").partition("|")
        y1, y2 = ints(t1), ints(t2)
        r1 = int(re.search(r"root=(\d+)", st1).group(1))
        r2 = int(re.search(r"root=(\d+)", st2).group(1))
    except (ValueError, AttributeError):
        fails.append("tear: unparsable / non-terminating: %s || %s" % (d.get("tear"), d.get("rest")))
        return fails
    allh = y1 + y2
    if sorted(allh) != sorted(nodes):
        fails.append("tear: handed out %s, elements are %s (not exactly once each)" % (allh[:60], sorted(nodes)[:60]))
    else:
        pos = dict((x, i) for i, x in enumerate(allh))
        for x, (l, r, _) in nodes.items():
            for c in (l, r):
                if c and pos[c] > pos[x]:
                    fails.append("tear: parent %d handed out before its child %d" % (x, c))
                    break
    if len(y1) != min(k, n):
        fails.append("tear: interrupted after %d nodes, %d handed out" % (k, len(y1)))
    if r2 != 0:
        fails.append("tear: tree not empty at the end (root=%d)" % r2)
    gone = set(y1)
    rem = dict((x, (0 if l in gone else l, 0 if r in gone else r, p))
               for x, (l, r, p) in nodes.items() if x not in gone)
    rroot, rn, rnodes = parse_shape("rshape " + d.get("rshape", "root=0 n=0"))
    if rnodes != rem or rroot != (root if rem else 0) or r1 != rroot:
        fails.append("tear: after %d steps the remaining structure is %s (root %d/%d), expected the tree minus the "
                     "handed-out nodes %s" % (len(y1), d.get("rshape", "")[:200], rroot, r1, sorted(rem.items())[:20]))
    else:
        tv2 = traverse(rnodes, rroot)
        if tv2 is None:
            fails.append("tear: remaining structure is not a tree")
        else:
            for tag, seq in zip(("rin", "rpre", "rpost"), tv2):
                try:
                    g = ints(d.get(tag, "LOOP"))
                except ValueError:
                    g = None
                if g != seq:
                    fails.append("%s: iteration of the remainder yields %s, expected %s" % (tag, d.get(tag), seq))
    if stats is not None and not fails:
        branch_stats(nodes, root, n, stats)
    return fails


def branch_stats(nodes, root, n, st):
    """which branches of the model functions the nodes of this tree exercise (computed from the shape)"""
    def hit(k):
        st[k] = st.get(k, 0) + 1
    if n == 0:
        hit("empty-tree")
        return
    for x, (l, r, p) in nodes.items():
        # next
        if r:
            hit("next:descend-right-then-left" if nodes[r][0] else "next:right-child-is-successor")
        else:
            c, q, steps = x, p, 0
            while q and nodes[q][0] != c:
                c, q, steps = q, nodes[q][2], steps + 1
            hit("next:climb-to-null" if not q else ("next:parent-from-left" if steps == 0 else "next:climb>=1"))
        if l:
            hit("prev:descend-left-then-right" if nodes[l][1] else "prev:left-child-is-predecessor")
        else:
            c, q, steps = x, p, 0
            while q and nodes[q][1] != c:
                c, q, steps = q, nodes[q][2], steps + 1
            hit("prev:climb-to-null" if not q else ("prev:parent-from-right" if steps == 0 else "prev:climb>=1"))
        # pre_next
        if l:
            hit("pre_next:left")
        elif r:
            hit("pre_next:right")
        else:
            c, q, steps, kinds = x, p, 0, set()
            while q:
                ql, qr, qp = nodes[q]
                if qr and qr != c:
                    break
                kinds.add("skip-right-null" if not qr else "skip-from-right")
                c, q, steps = q, qp, steps + 1
            hit("pre_next:climb-to-null" if not q else "pre_next:climb-to-sibling")
            for kd in kinds:
                hit("pre_next:" + kd)
        if r:
            hit("pre_prev:right")
        elif l:
            hit("pre_prev:left")
        else:
            c, q, kinds = x, p, set()
            while q:
                ql, qr, qp = nodes[q]
                if ql and ql != c:
                    break
                kinds.add("skip-left-null" if not ql else "skip-from-left")
                c, q = q, qp
            hit("pre_prev:climb-to-null" if not q else "pre_prev:climb-to-sibling")
            for kd in kinds:
                hit("pre_prev:" + kd)
        # post_next / post_prev
        if not p:
            hit("post_next:root")
            hit("post_prev:root")
        else:
            pl, pr_, _ = nodes[p]
            if not pr_:
                hit("post_next:parent-no-right")
            elif pr_ == x:
                hit("post_next:from-right")
            else:
                hit("post_next:descend-sibling" + ("-deep" if (nodes[pr_][0] or nodes[pr_][1]) else "-leaf"))
            if not pl:
                hit("post_prev:parent-no-left")
            elif pl == x:
                hit("post_prev:from-left")
            else:
                hit("post_prev:descend-sibling" + ("-deep" if (nodes[pl][0] or nodes[pl][1]) else "-leaf"))
        # tear (every node is torn once as a leaf of the remaining tree)
        if not p:
            hit("tear:root")
        elif nodes[p][0] == x:
            hit("tear:unlink-left")
        else:
            hit("tear:unlink-right")


ALL_BRANCHES = """next:descend-right-then-left next:right-child-is-successor next:climb-to-null next:parent-from-left
next:climb>=1 prev:descend-left-then-right prev:left-child-is-predecessor prev:climb-to-null prev:parent-from-right
prev:climb>=1 pre_next:left pre_next:right pre_next:climb-to-null pre_next:climb-to-sibling pre_next:skip-right-null
pre_next:skip-from-right pre_prev:right pre_prev:left pre_prev:climb-to-null pre_prev:climb-to-sibling
pre_prev:skip-left-null pre_prev:skip-from-left post_next:root post_next:parent-no-right post_next:from-right
post_next:descend-sibling-deep post_next:descend-sibling-leaf post_prev:root post_prev:parent-no-left
post_prev:from-left post_prev:descend-sibling-deep post_prev:descend-sibling-leaf tear:root tear:unlink-left
tear:unlink-right empty-tree""".split()


def struct_key(nodes, root):
    """id-free canonical form of a shape"""
    out, st = [], [root]
    while st:
        x = st.pop()
        if not x:
            out.append("0")
            continue
        out.append("1")
        st.append(nodes[x][1])
        st.append(nodes[x][0])
    return "".join(out)


# ------------------------------------------------------------------------------------ shrinking
def c_fails(cbin, case):
    """run one case on the C harness; returns a failure description or None"""
    cb, crashes = run_c(cbin, [case], timeout=60)
    if crashes:
        return "sanitizer/crash: " + list(crashes.values())[0]
    if cb[0] is None:
        return "no output"
    f = oracle(cb[0])
    f = [x for x in f if not x.startswith("PRECONDITION")]
    return f[0] if f else None


def shrink(cbin, case):
    kind, k, *ops = case.split()
    k = int(k)

    def mk(kk, oo):
        return "%s %d %s" % (kind, kk, " ".join(oo))
    ops = vlib.ddmin(ops, lambda oo: c_fails(cbin, mk(k, oo)) is not None, max_tests=250)
    for kk in sorted(set([0, 1, 2, len(ops) // 2, len(ops) - 1, len(ops)])):
        if 0 <= kk < k and c_fails(cbin, mk(kk, ops)) is not None:
            k = kk
            break
    ops = vlib.ddmin(ops, lambda oo: c_fails(cbin, mk(k, oo)) is not None, max_tests=120)
    return mk(k, ops)


def report_case(ctx, cbin, case, why, reported):
    small = shrink(cbin, case)
    what = c_fails(cbin, small) or why
    key = "iter/" + re.sub(r"[^A-Za-z_]+", "-", what.split(":")[0])[:40] + "/" + small[:60].replace(" ", "_")
    if key in reported:
        return
    reported.add(key)
    cb, crashes = run_c(cbin, [small], timeout=60)
    ctx.report(key=key, what="%s  [case: %s]" % (what, small),
               replay={"case": small, "original_case": case if len(case) < 4000 else case[:4000] + "...",
                       "failure": what, "c_output": cb[0], "crash": list(crashes.values()),
                       "how": "echo '<case>' | build/C03/drv   (harness/C03/drv.c built by checks/C03.py)"},
               found_input=True)


# ------------------------------------------------------------------------------------ the check
def build(ctx):
    cbin = ctx.cc("drv", [H / "drv.c"], repo_srcs=["avl.c", "rbt.c"], mode="asan")
    ml = ctx.extract("C03/Extract.v", ["C03/extracted/iter.ml", "C03/extracted/iter.mli"])
    mbin = ctx.ocaml_build("mdrv", ml[::-1] + [H / "mdrv.ml"])
    return cbin, mbin


def run(ctx):
    ctx.prove()
    cbin, mbin = build(ctx)
    cases, dist = gen_cases(ctx)
    ctx.log("generated %d cases: %s" % (len(cases), dist))
    chunk = 400 if ctx.quick else 1500
    chunks = [(i, cases[i:i + chunk]) for i in range(0, len(cases), chunk)]
    with ThreadPoolExecutor(max_workers=max(2, min(vlib.NPROC, 12))) as ex:
        results = list(ex.map(lambda ic: run_pair(cbin, mbin, ic[1]), chunks))
    ctx.log("harness and model ran")

    stats, sizes, shapes_seen = {}, {}, set()
    n_cmp = n_lines = n_steps = n_nontriv = 0
    suspects = []          # (case, why)
    n_diff = 0
    not_wf = 0
    for (off, cs), (cb, crashes, mb, (mrc, merr)) in zip(chunks, results):
        if mrc != 0:
            ctx.tie_broken("model driver failed (rc %d): %s" % (mrc, merr))
        for j, why in crashes.items():
            suspects.append((cs[j], "sanitizer/crash: " + why))
            ctx.tie_broken("C harness aborted on case %d: %s" % (off + j, why[:200]))
        for j, case in enumerate(cs):
            b = cb[j]
            if b is None:
                if j not in crashes:
                    ctx.tie_broken("no C output for case %d" % (off + j))
                continue
            m = mb.get(j)
            n_cmp += 1
            sc = strip_c(b)
            if m is None or sc != strip_m(m):
                n_diff += 1
                if n_diff <= 5:
                    sm = strip_m(m) if m else []
                    i = vlib.first_diff(sc, sm)
                    ctx.tie_broken("correspondence: case %d (%s) differs at line %s: C `%s` / model `%s`"
                                   % (off + j, case[:80], i, sc[i][:120] if i is not None and i < len(sc) else None,
                                      sm[i][:120] if i is not None and i < len(sm) else None))
                suspects.append((case, "differs from model"))
            if m is not None and "#wf 1" not in m[:4]:
                not_wf += 1
            n_lines += len(sc)
            f = oracle(b, stats)
            if f:
                suspects.append((case, f[0]))
                if f[0].startswith("PRECONDITION"):
                    ctx.tie_broken("case %d: %s" % (off + j, f[0][:300]))
            root, n, nodes = parse_shape(b[1])
            n_steps += 6 * n + 9 * n
            bucket = "0" if n == 0 else "1" if n == 1 else "2-7" if n <= 7 else "8-63" if n <= 63 else "64+"
            kd = b[0].split()[2]
            sizes[kd + ":" + bucket] = sizes.get(kd + ":" + bucket, 0) + 1
            if n >= 2:
                sk = struct_key(nodes, root)
                if sk not in shapes_seen:
                    shapes_seen.add(sk)
                    n_nontriv += 1
            if n >= 3:
                ctx.sample({"case": case[:160], "shape": b[1][:200], "in": b[3][:80], "tear": [x for x in b if x.startswith("tear")][0][:80]})
    if n_diff > 5:
        ctx.tie_broken("correspondence: %d cases differ in total" % n_diff)
    if not_wf:
        ctx.tie_broken("%d dumped heaps are not parent-linked trees with distinct ids according to the model's wf_heap "
                       "(hypothesis Repr/NoDup of the theorems does not apply)" % not_wf)

    # search: every suspect case (disagreement, oracle failure, crash) is re-run alone, shrunk and reported
    reported = set()
    done = 0
    for case, why in suspects:
        if done >= 6:
            break
        w = c_fails(cbin, case)
        if w is None:
            continue
        done += 1
        report_case(ctx, cbin, case, w, reported)

    missing = [b for b in ALL_BRANCHES if b not in stats]
    ctx.count(evaluations=n_cmp, nontrivial=n_nontriv)
    ctx.cov["rule"] = ("evaluations = trees on which C and extracted model were compared (all 8 foreach sequences, 6 single "
                       "steps from every node, 4 end points, interrupted + resumed tear, remaining shape and its 3 iterations); "
                       "distinct_nontrivial = distinct id-free tree shapes with >= 2 nodes among them")
    ctx.cov["lines_compared"] = n_lines
    ctx.cov["node_steps_compared"] = n_steps
    ctx.cov["case_distribution"] = dist
    ctx.cov["tree_kind_and_size"] = dict(sorted(sizes.items()))
    ctx.cov["branch_hits"] = dict(sorted(stats.items()))
    ctx.cov["branches_not_reached"] = missing
    ctx.cov["disagreements"] = n_diff
    if missing:
        ctx.notes.append("model branches not reached in this run: " + ", ".join(missing))
    ctx.log("compared %d trees (%d lines, %d distinct shapes), %d disagreements, branches not reached: %s"
            % (n_cmp, n_lines, n_nontriv, n_diff, missing or "none"))


def replay(ctx, path):
    import json
    obj = json.loads(Path(path).read_text())
    case = obj["replay"]["case"]
    cbin, mbin = build(ctx)
    cb, crashes, mb, _ = run_pair(cbin, mbin, [case])
    print("case:", case)
    for ln in (cb[0] or []):
        print("  C    ", ln)
    for ln in (mb.get(0) or []):
        print("  model", ln)
    w = c_fails(cbin, case)
    print("failure:", w, crashes)
    return 1 if w else 0
