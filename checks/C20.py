"""C20 - the Rust binding's mirrored types and foreign declarations match the C ABI.

One run (see DESIGN.md C20, CONVENTIONS.md):
  1. prove       coq/Properties_C20.v (layout_wf, abi_compatible_sound, read_field_agree, ... and their
                 versions for every target of the parametric model coq/C20/AbiTarget.v).
  2. regenerate  both declaration lists from the CURRENT tree ($VERIF_REPO): C side = clang JSON AST
                 of include/a/*.h, Rust side = parser of src/lib.rs, once per real width
                 (harness/C20/abi2coq.py) -> build/C20/AbiGen.v; and once more per width for every
                 cross target of harness/C20/abix.py (i686 Linux, Windows x64 MinGW / MSVC, AArch64
                 Linux, 32-bit ARM EABI with -fshort-enums, + the host as a sanity target) with the
                 TARGET's front ends (clang --target, rustc --target) -> build/C20/AbiGenX_<target>.v.
  3. reflect     build/C20/AbiGenThm.v: `abi_compatible rust_fXX c_fXX = true` by vm_compute, its
                 consequences by the soundness theorem; build/C20/AbiGenThmX_<target>.v: the same with
                 `abi_compatible_t <target parameters>`; all counted as obligations.
  4. tie         the model's own layout function (vm_compute in coqc) against gcc, clang (C lists)
                 and rustc (Rust lists) line by line, on the host (programs run) and on every cross
                 target (clang's constant evaluator read from the AST, rustc's layout_of in a no_core
                 crate); the translator's type resolution is type-checked by the compilers
                 (_Static_assert(__builtin_types_compatible_p) / fn-pointer coercions), for every
                 target; the pairing clang target <-> rustc target is checked on the primitives; nm on
                 objects built from the current sources confirms every declared symbol; a corpus case
                 and random synthetic declaration lists (padding, nesting, arrays, unions, perturbed
                 mirrors) go through the whole pipeline and the model's mismatch list must equal the
                 independent oracle's.
  5. search oracle  the property itself evaluated on what the COMPILERS report (rustc layout vs C
                 compiler layout, per target) and on the parsed prototypes with an independent Python
                 compatibility relation: every disagreeing declaration is a concrete failing input
                 (cross targets: key <declaration>/<target triple>, with a small probe that clang
                 rejects for that target); and on the SHARED library built the way CMakeLists.txt
                 builds it (-fPIC -fvisibility=hidden -DA_EXPORTS): every foreign fn / static of
                 lib.rs must be a defined dynamic symbol (nm -D), key <symbol>/not-exported.
"""
import json
import random
import re
import shutil
import sys
import time
from concurrent.futures import ThreadPoolExecutor
from pathlib import Path

import vlib

sys.path.insert(0, str(vlib.VERIF / "harness" / "C20"))
import abi2coq as A  # noqa: E402
import abix as X  # noqa: E402

WIDTHS = ((8, "f64", False), (4, "f32", True))


# ------------------------------------------------------------------------------------------ helpers

def coqc(ctx, name, text, timeout=600):
    rc, out = ctx.coq_eval(name, text, timeout=timeout)
    (ctx.build / (name + ".log")).write_text(out)
    return rc, out


def build_c_probe(ctx, tag, text, include_dir, cfg, compiler="gcc"):
    src = ctx.build / ("probe_%s.c" % tag)
    src.write_text(text)
    exe = ctx.build / ("probe_%s_%s" % (tag, compiler))
    cmd = [compiler, "-std=c11", "-w", "-I", str(include_dir), "-DA_EXPORTS", '-DA_HAVE_H="%s"' % cfg,
           str(src), "-o", str(exe)]
    rc, out = vlib.sh(cmd, timeout=120)
    if rc != 0:
        return None, out
    rc, out = vlib.sh([str(exe)], timeout=60)
    if rc != 0:
        return None, out
    return out.splitlines(), ""


def build_rust_probe(ctx, tag, text, float_feature):
    src = ctx.build / ("probe_%s.rs" % tag)
    src.write_text(text)
    exe = ctx.build / ("probe_%s_rs" % tag)
    cmd = ["rustc", "--edition", "2018", "--crate-name", "liba_probe", "--crate-type", "bin",
           "-A", "warnings", "--cfg", 'feature="std"']
    if float_feature:
        cmd += ["--cfg", 'feature="float"']
    cmd += [str(src), "-o", str(exe)]
    rc, out = vlib.sh(cmd, timeout=300)
    if rc != 0:
        return None, out
    rc, out = vlib.sh([str(exe)], timeout=60)
    if rc != 0:
        return None, out
    return out.splitlines(), ""


def split_probe(lines):
    base = [ln for ln in lines if ln.startswith("B ")]
    lay = [ln for ln in lines if ln[:2] in ("S ", "F ")]
    return base, lay


def check_c_base(ctx, base, who):
    """the translator's table of C base types against what the compiler says"""
    ok = True
    for ln in base:
        name, size, align, kind = ln[2:].split("|")
        if name in A.C_BASE:
            b = A.C_BASE[name]
            if b[0] == "bool":
                exp = (1, 1)
            else:
                exp = (b[1], b[1])
            if (int(size), int(align)) != exp:
                ctx.tie_broken("%s: base type %s has size/align %s/%s, the translator assumes %s" % (who, name, size, align, exp))
                ok = False
            if b[0] == "int" and b[2] in ("s", "u") and kind != b[2]:
                ctx.tie_broken("%s: base type %s signedness %s, translator assumes %s" % (who, name, kind, b[2]))
                ok = False
        elif kind == "p" and (size, align) != ("8", "8"):
            ctx.tie_broken("%s: pointer size %s/%s, the model assumes 8/8" % (who, size, align))
            ok = False
    return ok


def check_rust_base(ctx, base, who):
    ok = True
    for ln in base:
        name, size, align = ln[2:].split("|")
        if name in A.RUST_PRIMS:
            b = A.RUST_PRIMS[name]
            exp = (1, 1) if b[0] == "bool" else (b[1], b[1])
        else:
            exp = (8, 8)
        if (int(size), int(align)) != exp:
            ctx.tie_broken("%s: primitive %s has size/align %s/%s, the translator assumes %s" % (who, name, size, align, exp))
            ok = False
    return ok


def compare_lines(ctx, what, model, impl, stats):
    """canonical layout lines of the model against a compiler's; returns True when equal"""
    stats["lines"] += len(impl)
    i = vlib.first_diff(model, impl)
    if i is None:
        return True
    m = model[i] if i < len(model) else "<end>"
    c = impl[i] if i < len(impl) else "<end>"
    ctx.tie_broken("correspondence %s: line %d differs: model `%s` vs compiler `%s`" % (what, i, m, c))
    return False


def nontrivial_structs(lines):
    """rule for distinct_nontrivial: records whose layout has padding (internal or tail), a nested
    record/array member, or is a union"""
    lay = A.parse_layout_lines(lines)
    n = 0
    for name, s in lay.items():
        used = sum(f[2] for f in s["fields"])
        if s["kind"] == "union" or used != s["size"] or any(f[2] > 16 for f in s["fields"]):
            n += 1
    return n


def defined_symbols(ctx, real):
    """Objects compiled from the CURRENT src/*.c with the flags the project's CMake uses for every
    library target (set_library_compile / set_library_options of CMakeLists.txt: POSITION_INDEPENDENT_CODE,
    C_VISIBILITY_PRESET hidden, -DA_EXPORTS), `nm` over them (what the static archive alib holds), and
    the shared object liba linked from the same objects, `nm -D` over it (what it exports).
    -> {"obj": {symbol: type}, "dyn": {symbol: type}, "how": [the two commands that reproduce "dyn"]}"""
    cfg = ctx.cfg_header(real=real)
    od = ctx.build / ("obj_r%d" % real)
    if od.exists():
        shutil.rmtree(od)
    od.mkdir(parents=True)
    srcs = sorted((vlib.REPO / "src").glob("*.c"))
    flags = ["-std=c11", "-O0", "-w", "-fPIC", "-fvisibility=hidden", "-I", str(vlib.REPO / "include"), "-DA_EXPORTS",
             '-DA_HAVE_H="%s"' % cfg]

    def one(s):
        o = od / (s.stem + ".o")
        return s, vlib.sh(["gcc"] + flags + ["-c", str(s), "-o", str(o)], timeout=120)
    with ThreadPoolExecutor(max_workers=min(4, vlib.NPROC)) as ex:
        res = list(ex.map(one, srcs))
    bad = [(s, o) for s, (rc, o) in res if rc != 0]
    if bad:
        raise vlib.CheckError("src/%s does not compile: %s" % (bad[0][0].name, bad[0][1][-800:]))

    def table(out):
        syms = {}
        for ln in out.splitlines():
            w = ln.split()
            if len(w) == 3:
                syms[w[2]] = w[1]
        return syms
    rc, out = vlib.sh("nm -g --defined-only %s/*.o" % od, timeout=60)
    obj = table(out)
    so = od / "liba.so"
    rc, out = vlib.sh(["gcc", "-shared", "-o", str(so)] + [str(od / (s.stem + ".o")) for s in srcs] + ["-lm"], timeout=120)
    if rc != 0:
        raise vlib.CheckError("the shared object does not link: %s" % out[-800:])
    rc, out = vlib.sh(["nm", "-D", "--defined-only", str(so)], timeout=60)
    if rc != 0:
        raise vlib.CheckError("nm -D failed: %s" % out[-300:])
    how = ["gcc %s %s/src/*.c -shared -o %s -lm" % (" ".join("'%s'" % f if '"' in f else f for f in flags), vlib.REPO, so),
           "nm -D --defined-only %s" % so]
    return {"obj": obj, "dyn": table(out), "how": how}


# ------------------------------------------------------------------------------------------ other data models

def cross_cfg(ctx, real):
    """the configuration header of the host runs without the two host facts (pointer size, byte order):
    a/a.h derives them from the target compiler's own macros"""
    host = ctx.cfg_header(real=real).read_text()
    txt = "".join(ln + "\n" for ln in host.splitlines() if not re.match(r"#define A_(SIZE_POINTER|BYTE_ORDER)\b", ln))
    d = ctx.build / "x"
    d.mkdir(parents=True, exist_ok=True)
    p = d / ("cfg_r%d.h" % real)
    if not p.exists() or p.read_text() != txt:
        p.write_text(txt)
    return p


def cross_collect(ctx, by_width):
    """{(width tag, triple): result of X.one} - clang and rustc front ends only, nothing is run"""
    jobs = []
    for tag, (real, flt, cfg, c, r) in by_width.items():
        xcfg = cross_cfg(ctx, real)
        for tg in X.TARGETS:
            jobs.append((tag, real, xcfg, tg, r))

    def one(j):
        tag, real, xcfg, tg, r = j
        t0 = time.time()
        res = X.one(vlib.REPO, xcfg, ctx.build / "x" / tg.ident, real, tag, tg, r)
        res["target"], res["cfg"], res["secs"] = tg, xcfg, round(time.time() - t0, 2)
        return (tag, tg.triple), res
    with ThreadPoolExecutor(max_workers=min(4, vlib.NPROC)) as ex:
        return dict(ex.map(one, jobs))


def cross_judge(ctx, by_width, xres, dumps, mms, host_reported, host_keys, host_lay, stats, thm_ok):
    found = {}      # (declaration, triple) -> {"kind", "items": [(key, what, det)], "tags": [..], "res"}
    cov = ctx.cov.setdefault("cross_targets", {})
    n_thm = 0
    for (tag, triple), res in sorted(xres.items(), key=lambda kv: (kv[0][1], kv[0][0])):
        tg = res["target"]
        ent = cov.setdefault(triple, {"rust_target": tg.rust, "data_model": tg.model,
                                      "front_end": " ".join(tg.cmd()) + " -fsyntax-only", "widths": {}})
        if "error" in res:
            ctx.tie_broken("cross-target probe [%s/%s] failed: %s" % (triple, tag, res["error"]))
            ent["widths"][tag] = {"error": res["error"][:300]}
            continue
        c, r = res["c"], res["r"]
        ent["pointer"] = list(res["ptr"])
        ent["c_base_types"] = {k: [v[1], res["align"].get(k)] for k, v in sorted(res["base"].items())
                               if len(v) > 1 and k in ("int", "long", "long long", "double", "long double")}
        if res["pairing"]:
            ctx.tie_broken("clang --target=%s and rustc --target %s disagree on primitives %s: the two targets are not "
                           "the same platform" % (triple, tg.rust, res["pairing"][:4]))
        w = {"c_records": len(c.structs), "rust_structs": len(r.structs), "rust_fns": len(r.funs), "rust_statics": len(r.vars),
             "layout_lines_clang": len(res["lines"]), "layout_lines_rustc": len(res["rust_lines"]),
             "primitives_equal_clang_rustc": len(X.PRIMS) - len(res["pairing"]), "secs": res["secs"]}
        stats["lines"] += len(res["lines"]) + len(res["rust_lines"])
        okeys = sorted(k for k, _, _ in res["mismatches"])
        w["mismatch_keys"] = okeys
        idn = res["ident"]
        bad_decl = {X.decl_name(k)[1] for k in okeys}
        w["declarations_identical_per_clang"] = sum(1 for n, v in idn.items() if v)
        w["not_identical_accepted_by_compat"] = sorted(n for n, v in idn.items() if not v and n not in bad_decl)
        both = sorted(n for n, v in idn.items() if v and n in bad_decl)
        if both:
            w["identical_for_clang_but_rejected"] = both      # e.g. an enum type: compatible with its underlying type
        ctx.count(evaluations=len(r.structs) + sum(len(s_[2]) for s_ in r.structs) + len(r.funs)
                  + sum(len(f[1]) + 1 for f in r.funs) + len(r.vars), nontrivial=nontrivial_structs(res["rust_lines"]))
        if tg.host:
            # sanity: this path must reproduce the host path (gcc-run probe, rustc-run probe, oracle)
            clay, rlay = host_lay.get(tag, (None, None))
            if clay is not None:
                compare_lines(ctx, "cross path (clang AST constants) vs host C probe [%s]" % tag, clay, res["lines"], stats)
            if rlay is not None:
                compare_lines(ctx, "cross path (rustc no_core layouts) vs host rustc probe [%s]" % tag, rlay, res["rust_lines"], stats)
            if clay is not None and rlay is not None and okeys != host_keys.get(tag):
                ctx.tie_broken("cross path on the host target reports %s, the host path %s" % (okeys[:6], (host_keys.get(tag) or [])[:6]))
            w["model"] = "host: reflection theorems liba_abi_%s*" % tag
        elif res.get("coq"):
            xt = res["coq"]
            compare_lines(ctx, "layout model vs clang --target=%s [c_%s]" % (triple, tag), dumps.get("c_" + xt, []), res["lines"], stats)
            compare_lines(ctx, "layout model vs rustc --target %s [rust_%s]" % (tg.rust, tag), dumps.get("rust_" + xt, []), res["rust_lines"], stats)
            mkeys = sorted(A.mm_key(t) for t in mms.get(xt, ["<none>"]))
            if mkeys != okeys:
                ctx.tie_broken("abi_mismatches [%s/%s] (model) %s differs from the oracle %s" % (triple, tag, mkeys[:6], okeys[:6]))
            w["model"] = ("reflection: abi_compatible_t %s rust_%s c_%s = true by vm_compute (liba_abi_%s, _agree, _wf)"
                          % (A.coq_target(res["tg"]), xt, xt, xt)
                          if tg.ident in thm_ok else "model evaluated (abi_mismatches); the reflection theorems did not check")
            n_thm += 3 if tg.ident in thm_ok else 0
        else:
            w["model"] = "compiler-observed only: " + res["model_why"]
        ent["widths"][tag] = w
        for key, what, det in res["mismatches"]:
            if key in host_reported:
                w.setdefault("also_reported_for_the_host", []).append(key)
                continue
            kind, name = X.decl_name(key)
            f = found.setdefault((name, triple), {"kind": kind, "items": [], "tags": [], "res": res, "tag": tag})
            if tag not in f["tags"]:
                f["tags"].append(tag)
            if key not in [k for k, _, _ in f["items"]]:
                f["items"].append((key, what, det))
    rh = by_width["f64"][4]
    for (name, triple), f in sorted(found.items()):
        res, tg = f["res"], f["res"]["target"]
        key = "%s/%s" % (name, triple)
        ctx.c20_keys.append(key)
        try:
            probe, cmd, msgs = X.focused_probe(res, f["kind"], name, f["items"], ctx.build / "x" / tg.ident, tg, vlib.REPO,
                                               res["cfg"], f["tag"])
        except Exception as e:      # the finding stands without the extra probe
            probe, cmd, msgs = res["probe"], res["cmd"], ["(focused probe not generated: %s)" % e]
        line = {"fn": rh.meta["fn_lines"], "static": rh.meta["var_lines"], "struct": rh.meta["lines"]}.get(f["kind"], {}).get(name)
        what = ("on %s (%s; rustc target %s): " % (triple, tg.model, tg.rust)
                + "; ".join(w_ for _, w_, _ in f["items"])[:900] + " [configurations: %s]" % ",".join(f["tags"]))
        ctx.report(key, what,
                   {"kind": "cross-target declaration", "key": key, "declaration": name, "target": triple,
                    "clang_options": list(tg.cmd()[1:]), "rust_target": tg.rust, "configurations": f["tags"],
                    "mismatches": [{"key": k, "what": w_, "detail": d} for k, w_, d in f["items"]],
                    "probe_file": str(probe), "probe_text": Path(probe).read_text()[-6000:] if Path(probe).exists() else None,
                    "command": " ".join(cmd), "clang_message": msgs, "lib_rs_line": line, "repo": str(vlib.REPO),
                    "replay_with": "python3 tools/vcheck.py C20 --replay <this file>"}, found_input=True)
    return n_thm


# ------------------------------------------------------------------------------------------ real tree

def run_real(ctx, proofs_ok):
    stats = {"lines": 0}
    named, by_width = [], {}
    for real, tag, flt in WIDTHS:
        cfg = ctx.cfg_header(real=real)
        try:
            c = A.c_decls(vlib.REPO, cfg, ctx.build, real)
            r = A.rust_decls(vlib.REPO, flt)
        except A.AbiError as e:
            ctx.tie_broken("translator (abi2coq) cannot render the current declarations [%s]: %s" % (tag, str(e)[:600]))
            return None
        # records the translator cannot express are left out of the C list (a Rust mirror of one then
        # has no C record and is reported)
        skipped = [s[0] for s in c.structs if any(A.has_unsupported(ft) for _, ft in s[2])]
        c.structs = [s for s in c.structs if s[0] not in skipped]
        if skipped:
            ctx.notes.append("C records not representable in the model (left out) [%s]: %s" % (tag, skipped))
        named += [("c_" + tag, c), ("rust_" + tag, r)]
        by_width[tag] = (real, flt, cfg, c, r)
    pairs = [(tag, "rust_" + tag, "c_" + tag) for _, tag, _ in WIDTHS]

    # the other data models: clang / rustc front ends for every target of X.TARGETS (harness/C20/abix.py)
    t0 = time.time()
    xres = cross_collect(ctx, by_width)
    ctx.log("cross targets: %d front-end runs (clang + rustc) for %d targets x %d widths, %.1fs"
            % (2 * len(xres), len(X.TARGETS), len(by_width), time.time() - t0))
    for (tag, triple), res in sorted(xres.items(), reverse=True):
        tg = res.get("target")
        if "error" in res or tg.host or not res["model"]:
            continue
        if any(o.get("tg") not in (None, res["tg"]) for (t2, tr2), o in xres.items() if tr2 == triple):
            res["model"], res["model_why"] = False, "the two widths give different layout parameters"
            continue
        xt = "%s_%s" % (tag, tg.ident)
        named += [("c_" + xt, res["c"]), ("rust_" + xt, res["r"])]
        pairs.append((xt, "rust_" + xt, "c_" + xt))
        res["coq"] = xt

    # One unit of generated Coq files per platform (host; every cross target the model applies to):
    # declarations, model evaluation (layout dumps + abi_mismatches), reflection theorems.  The units
    # are compiled concurrently; a cross-target disagreement cannot hide the host theorems.
    units = [("", [x for x in named if x[0].split("_", 1)[1] in by_width], [p_ for p_ in pairs if p_[0] in by_width])]
    units = [units[0] + (None,)]
    for tg in X.TARGETS:
        rs = [res for (tag, triple), res in sorted(xres.items(), reverse=True) if triple == tg.triple and res.get("coq")]
        if rs:
            units.append(("X_" + tg.ident, [x for x in named if x[0].endswith("_" + tg.ident)],
                          [p_ for p_ in pairs if p_[0].endswith("_" + tg.ident)], rs[0]["tg"]))

    def unit(u):
        suffix, named_u, pairs_u, tgp = u
        gen = "AbiGen" + suffix
        r_gen = coqc(ctx, gen, A.emit_decls_file(str(vlib.REPO), named_u))
        if r_gen[0] != 0:
            return suffix, r_gen, None, None, None
        if tgp is None:
            ev = A.emit_eval_file(gen, pairs_u, [n for n, _ in named_u])
            ev += 'Eval vm_compute in ("BEGIN-DUMP rust_only", rust_only, "END-DUMP").\n'
            thm_src = A.emit_thm_file(gen, pairs_u)
        else:
            ev = A.emit_eval_file_t(gen, pairs_u, [n for n, _ in named_u], tgp)
            thm_src = A.emit_thm_file_t(gen, pairs_u, tgp)
        r_ev = coqc(ctx, "AbiGenEval" + suffix, ev)
        r_thm = coqc(ctx, "AbiGenThm" + suffix, thm_src) if proofs_ok else None
        return suffix, r_gen, r_ev, thm_src, r_thm
    with ThreadPoolExecutor(max_workers=min(4, vlib.NPROC)) as ex:
        done = list(ex.map(unit, units))
    dumps, mms = {}, {}
    thm_ok, thm_x_ok = False, set()
    for suffix, r_gen, r_ev, thm_src, r_thm in done:
        if r_gen[0] != 0:
            ctx.tie_broken("generated declarations AbiGen%s.v do not compile (translator bug?): %s" % (suffix, r_gen[1][-500:]))
            if not suffix:
                return None
            continue
        if r_ev[0] != 0:
            ctx.tie_broken("model evaluation AbiGenEval%s.v failed: %s" % (suffix, r_ev[1][-500:]))
            if not suffix:
                return None
        else:
            d_, m_ = A.parse_eval_output(r_ev[1])
            dumps.update(d_)
            mms.update(m_)
        # reflection theorems against the regenerated lists
        n_thm = len(re.findall(r"^Theorem ", thm_src, flags=re.M))
        ctx.cov["obligations"] += n_thm
        if r_thm is None:
            continue
        rc, out = r_thm
        n_closed = len(re.findall(r"^Closed under the global context", out, flags=re.M))
        if rc == 0 and n_closed == n_thm:
            if suffix:
                thm_x_ok.add(suffix[2:])
            else:
                thm_ok = True
            ctx.cov["discharged"] += n_thm
            ctx.cov.setdefault("theorems", []).extend(re.findall(r"^Theorem (\w+)", thm_src, flags=re.M))
            ctx.cov["trusted_base"].append("generated build/C20/AbiGenThm%s.v: %d reflection theorems, all closed under the global context" % (suffix, n_thm))
        else:
            ctx.cov["discharged"] += n_closed       # coqc stops at the first theorem that fails: the ones before it were checked
            m = re.search(r'line (\d+)', out)
            which = "?"
            if m:
                which = vlib.enclosing_name(ctx.build / ("AbiGenThm%s.v" % suffix), int(m.group(1)))
            ctx.tie_broken("reflection theorem %s no longer checks against the regenerated declarations: %s"
                           % (which, " ".join(out.split())[-300:]))
    if tuple(dumps.get("rust_only", [])) != tuple(A.RUST_ONLY):
        ctx.tie_broken("rust_only list of AbiDefs.v %s differs from the oracle's %s" % (dumps.get("rust_only"), A.RUST_ONLY))
    ctx.cov["checker_cmd"] += ("; coqc -Q coq LibaV on build/C20/AbiGen*.v, AbiGenEval*.v, AbiGenThm*.v (one unit for the host, one per "
                               "cross target the layout model applies to; regenerated from %s on this run)" % vlib.REPO)

    # layout model against the compilers; translator's type resolution type-checked by the compilers
    reported = {}
    nm_cache = {}
    host_keys, host_lay = {}, {}
    for tag, (real, flt, cfg, c, r) in by_width.items():
        layouts = {}
        for comp in ("gcc", "clang"):
            lines, err = build_c_probe(ctx, tag, A.c_probe(c), vlib.REPO / "include", cfg, comp)
            if lines is None:
                m = re.search(r'resolved (?:prototype|type) of (\w+)', err)
                ctx.tie_broken("C probe [%s/%s] failed%s: %s" % (tag, comp, " (translator mis-resolved %s)" % m.group(1) if m else "",
                                                                 " ".join(err.split())[-400:]))
                continue
            base, lay = split_probe(lines)
            check_c_base(ctx, base, "%s/%s" % (comp, tag))
            compare_lines(ctx, "layout model vs %s [c_%s]" % (comp, tag), dumps.get("c_" + tag, []), lay, stats)
            layouts[comp] = lay
        rl, err = build_rust_probe(ctx, tag, A.rust_probe(r), flt)
        if rl is None:
            ctx.tie_broken("rustc probe [%s] failed (lib.rs does not compile, or the parser mis-read a type): %s"
                           % (tag, " ".join(err.split())[-600:]))
            rlay = None
        else:
            base, rlay = split_probe(rl)
            check_rust_base(ctx, base, "rustc/" + tag)
            compare_lines(ctx, "layout model vs rustc [rust_%s]" % tag, dumps.get("rust_" + tag, []), rlay, stats)
        clay = layouts.get("gcc") or layouts.get("clang")
        host_lay[tag] = (clay, rlay)

        # the search oracle: compilers' numbers + independent compatibility relation
        have = rlay is not None and clay is not None
        oracle = A.py_mismatches(r, c, rlay if have else None, clay if have else None)
        if have:
            ctx.count(evaluations=len(r.structs) + sum(len(s[2]) for s in r.structs) + len(r.funs)
                      + sum(len(f[1]) + 1 for f in r.funs) + len(r.vars),
                      nontrivial=nontrivial_structs(rlay))
        model_keys = sorted(A.mm_key(t) for t in mms.get(tag, ["<none>"]))
        oracle_keys = sorted(k for k, _, _ in oracle)
        if not have:
            # without compiler layouts the oracle sees names/counts/types only: it must find a subset
            if not set(oracle_keys) <= set(model_keys):
                ctx.tie_broken("oracle [%s] reports %s which the model does not" % (tag, sorted(set(oracle_keys) - set(model_keys))[:6]))
        elif model_keys != oracle_keys:
            ctx.tie_broken("abi_mismatches [%s] (model) %s differs from the oracle %s" % (tag, model_keys[:6], oracle_keys[:6]))
        elif model_keys and not thm_ok:
            pass     # the broken reflection theorem is explained by these mismatches
        # symbols
        host_keys[tag] = sorted(k for k, _, _ in oracle)
        built = defined_symbols(ctx, real) if (real == 8 or not ctx.quick) else nm_cache.get("syms", {})
        nm_cache["syms"] = built
        syms, dyn = built.get("obj", {}), built.get("dyn", {})
        missing = set()
        for (n, ps, rt) in r.funs:
            if syms and syms.get(n) not in ("T", "t", "W", "i"):
                missing.add(n)
                oracle.append(("fn/%s/no-symbol" % n, "foreign fn %s is declared in lib.rs but the library built from "
                               "the current sources defines no such function (nm: %s)" % (n, syms.get(n)), {"fn": n}))
        for (n, t) in r.vars:
            if syms and syms.get(n) not in ("D", "R", "B", "d", "r", "b", "G", "S", "C", "V"):
                missing.add(n)
                oracle.append(("static/%s/no-symbol" % n, "foreign static %s has no definition in the library (nm: %s)"
                               % (n, syms.get(n)), {"static": n}))
        # the shared library (hidden visibility preset): a definition that is not exported is not there
        # for a binding that links liba.so / liba.dll
        for kind, n in [("fn", f[0]) for f in r.funs] + [("static", v[0]) for v in r.vars]:
            if dyn and n not in missing and dyn.get(n) not in (("T", "W", "i") if kind == "fn" else ("D", "R", "B", "G", "S", "V")):
                oracle.append(("%s/not-exported" % n, "foreign %s %s is defined by the library objects (nm: %s) but is NOT an "
                               "exported symbol of the shared library built the way CMakeLists.txt builds it "
                               "(-fPIC -fvisibility=hidden -DA_EXPORTS; nm -D: %s): its declaration lacks A_PUBLIC / A_EXTERN"
                               % (kind, n, syms.get(n), dyn.get(n)),
                               {"symbol": n, "_replay": {"symbol": n, "how": built.get("how")},
                                "_line": (r.meta["fn_lines"] if kind == "fn" else r.meta["var_lines"]).get(n)}))
        ctx.cov.setdefault("exported_symbols", {})[tag] = {
            "declared_in_lib_rs": len(r.funs) + len(r.vars), "dynamic_defined_symbols_of_liba_so": len(dyn),
            "declared_and_exported": sum(1 for x in [f[0] for f in r.funs] + [v[0] for v in r.vars] if x in dyn),
            "how": built.get("how")}
        for key, what, det in oracle:
            reported.setdefault(key, (what, det, []))[2].append(tag)
        ctx.cov.setdefault("declarations", {})[tag] = {
            "rust_structs": len(r.structs), "rust_fns": len(r.funs), "rust_statics": len(r.vars),
            "c_records": len(c.structs), "c_fns": len(c.funs), "c_vars": len(c.vars),
            "model_mismatches": mms.get(tag), "ffi_aliases_used": r.meta["ffi_used"]}
    ctx.c20_keys = sorted(reported)
    for key, (what, det, tags) in sorted(reported.items()):
        line = det.get("_line")
        m = re.match(r"(fn|static|struct)/(\w+)", key)
        r = by_width["f64"][4]
        if m:
            line = {"fn": r.meta["fn_lines"], "static": r.meta["var_lines"], "struct": r.meta["lines"]}[m.group(1)].get(m.group(2))
        rep = {"kind": "declaration", "key": key, "detail": {k: v for k, v in det.items() if not k.startswith("_")},
               "configurations": tags, "lib_rs_line": line, "repo": str(vlib.REPO),
               "how": "python3 tools/vcheck.py C20 --replay <this file>"}
        if "_replay" in det:
            rep["replay_with"] = rep.pop("how")
            rep.update(det["_replay"])
        ctx.report(key, what + " [configurations: %s]" % ",".join(tags), rep, found_input=True)
    cross_judge(ctx, by_width, xres, dumps, mms, set(reported), host_keys, host_lay, stats, thm_x_ok)
    ctx.sample({"struct": "pid_fuzzy (f64)", "model/rustc/gcc layout": [ln for ln in dumps.get("rust_f64", []) if " pid_fuzzy " in ln][:4]})
    ctx.sample({"fn": "a_pid_fuzzy_opr", "rust": next((A.coq_ty(A.T_ptr(A.T_fn(f[1], f[2]))) for f in by_width["f64"][4].funs if f[0] == "a_pid_fuzzy_opr"), None),
                "c": next((A.coq_ty(A.T_ptr(A.T_fn(f[1], f[2]))) for f in by_width["f64"][3].funs if f[0] == "a_pid_fuzzy_opr"), None)})
    return stats


# ------------------------------------------------------------------------------------------ synthetic

def fake_repo(ctx, name, lib_rs, header):
    d = ctx.build / "synth" / name
    if d.exists():
        shutil.rmtree(d)
    (d / "include" / "a").mkdir(parents=True)
    (d / "src").mkdir()
    (d / "include" / "a" / "synth.h").write_text(header)
    (d / "src" / "lib.rs").write_text(lib_rs)
    return d


def run_cases(ctx, cases, label, stats):
    """cases: [(name, lib_rs, header, expected_keys or None)].  Every case goes through the real
    pipeline: clang AST -> Ty, Rust parser -> Ty, Coq model (layout + mismatches), gcc, rustc, and the
    independent oracle.  Returns number of cases on which everything agreed."""
    cfg = ctx.cfg_header(real=8)
    named, info = [], []
    for (name, lib_rs, header, expected) in cases:
        d = fake_repo(ctx, name, lib_rs, header)
        try:
            c = A.c_decls(d, cfg, d, 8)
            r = A.rust_decls(d, False)
        except A.AbiError as e:
            ctx.tie_broken("%s case %s: translator failed on generated declarations: %s" % (label, name, str(e)[:300]))
            continue
        named += [("c_" + name, c), ("rust_" + name, r)]
        info.append((name, d, c, r, expected))
    if not info:
        return 0
    mod = "AbiSyn_" + label
    rc, out = coqc(ctx, mod, A.emit_decls_file("synthetic", named))
    if rc != 0:
        ctx.tie_broken("%s: generated declarations do not compile: %s" % (label, out[-400:]))
        return 0
    pairs = [(n, "rust_" + n, "c_" + n) for (n, _, _, _, _) in info]
    rc, out = coqc(ctx, mod + "Eval", A.emit_eval_file(mod, pairs, [n for n, _ in named]))
    if rc != 0:
        ctx.tie_broken("%s: model evaluation failed: %s" % (label, out[-400:]))
        return 0
    dumps, mms = A.parse_eval_output(out)

    def probes(item):
        name, d, c, r, expected = item
        cl, cerr = build_c_probe(ctx, "syn_" + name, A.c_probe(c), d / "include", cfg, "gcc")
        rl, rerr = build_rust_probe(ctx, "syn_" + name, A.rust_probe(r), False)
        return cl, cerr, rl, rerr
    with ThreadPoolExecutor(max_workers=max(2, vlib.NPROC // 2)) as ex:
        pr = list(ex.map(probes, info))
    good = 0
    for (name, d, c, r, expected), (cl, cerr, rl, rerr) in zip(info, pr):
        if cl is None or rl is None:
            ctx.tie_broken("%s case %s: probe failed: %s" % (label, name, " ".join((cerr or rerr).split())[-400:]))
            continue
        _, clay = split_probe(cl)
        _, rlay = split_probe(rl)
        ok = compare_lines(ctx, "%s/%s layout model vs gcc" % (label, name), dumps.get("c_" + name, []), clay, stats)
        ok = compare_lines(ctx, "%s/%s layout model vs rustc" % (label, name), dumps.get("rust_" + name, []), rlay, stats) and ok
        oracle = sorted(k for k, _, _ in A.py_mismatches(r, c, rlay, clay))
        model = sorted(A.mm_key(t) for t in mms.get(name, ["<none>"]))
        if oracle != model:
            ok = False
            diff = sorted(set(oracle) ^ set(model))
            ctx.tie_broken("%s case %s: model mismatches differ from oracle: %s" % (label, name, diff[:5]))
        if expected is not None and sorted(expected) != model:
            ok = False
            ctx.tie_broken("%s case %s: expected mismatches %s, model reports %s" % (label, name, sorted(expected)[:6], model[:6]))
        stats["syn_structs"] = stats.get("syn_structs", 0) + len(r.structs) + len(c.structs)
        stats["syn_fns"] = stats.get("syn_fns", 0) + len(r.funs)
        stats["syn_mismatch_keys"] = stats.get("syn_mismatch_keys", 0) + len(model)
        stats["syn_nontrivial"] = stats.get("syn_nontrivial", 0) + nontrivial_structs(clay) + nontrivial_structs(rlay)
        for k in model:
            kind = re.sub(r"/\w+?/", "/*/", k, count=1)
            kind = re.sub(r"/\d+", "/#", kind)
            stats.setdefault("syn_mismatch_kinds", {})
            stats["syn_mismatch_kinds"][kind] = stats["syn_mismatch_kinds"].get(kind, 0) + 1
        good += ok
    return good


def corpus_cases():
    res = []
    cd = vlib.VERIF / "corpus" / "C20"
    for d in sorted(p for p in cd.iterdir() if p.is_dir()) if cd.exists() else []:
        exp = json.loads((d / "expected.json").read_text())
        res.append((d.name, (d / "lib.rs").read_text(), (d / "synth.h").read_text(), exp["model_mismatch_keys"]))
    return res


# ------------------------------------------------------------------------------------------ entry

def language_mode_sweep(ctx):
    """The scalar typedefs of include/a/a.h must denote the same machine types (size, alignment, signedness) in every language
    mode a caller may compile the headers in, because src/lib.rs has ONE declaration for each (seeded change C20-18: the
    pre-C99 fallback of A_BOOL).  gcc -std=gnu89 / c99 / c2x and g++ -std=c++11 against the -std=c11 build the layout model
    is generated from; compiler-observed, host only."""
    a_h = (vlib.REPO / "include" / "a" / "a.h").read_text()
    pairs = sorted(set((n, m) for m, n in re.findall(r"typedef\s+(A_[A-Z0-9_]+)\s+(a_[a-z0-9_]+)\s*;", a_h) if n != "a_void"))
    names = [n for n, _ in pairs]
    if not names:
        ctx.tie_broken("language-mode sweep: no scalar typedefs found in include/a/a.h")
        return
    # a typedef that a language mode does not provide at all (a_llong before C99) is skipped there: its macro is undefined
    body = "".join('#if defined(%s)\n    printf("%s %%u %%u %%d\\n", (unsigned)sizeof(%s), (unsigned)__alignof__(%s), (int)((%s)-1 < (%s)0));\n#endif\n'
                   % (m, n, n, n, n, n) for n, m in pairs)
    text = '#include "a/a.h"\n#include <stdio.h>\nint main(void)\n{\n' + body + "    return 0;\n}\n"
    cfg = ctx.cfg_header(1, 8)
    res = {}
    for comp, std, ext in (("gcc", "c11", "c"), ("gcc", "gnu89", "c"), ("gcc", "c99", "c"), ("gcc", "c2x", "c"), ("g++", "c++11", "cc")):
        src = ctx.build / ("lang_%s.%s" % (std.replace("+", "p"), ext))
        src.write_text(text)
        exe = ctx.build / ("lang_%s" % std.replace("+", "p"))
        rc, out = vlib.sh([comp, "-std=" + std, "-w", "-fpermissive" if comp == "g++" else "-w", "-I", str(vlib.REPO / "include"), "-DA_EXPORTS",
                           '-DA_HAVE_H="%s"' % cfg, str(src), "-o", str(exe)], timeout=120)
        if rc != 0:
            ctx.tie_broken("language-mode sweep: the headers do not compile with %s -std=%s: %s" % (comp, std, " ".join(out.split())[-300:]))
            continue
        rc, out = vlib.sh([str(exe)], timeout=60)
        res[std] = dict((l.split()[0], tuple(l.split()[1:])) for l in out.splitlines() if l.strip())
    ref = res.get("c11", {})
    n = 0
    for std, tab in sorted(res.items()):
        for name in names:
            n += 1
            if std != "c11" and name in ref and name in tab and tab[name] != ref[name]:
                ctx.report("a.h/%s/language-mode" % name,
                           "typedef %s is (size, alignment, signed) = %s when the headers are compiled with -std=%s but %s with -std=c11, "
                           "the configuration src/lib.rs mirrors: a foreign function or structure declared with it has a different "
                           "machine type for such a caller" % (name, tab.get(name), std, ref[name]),
                           {"typedef": name, "language_mode": std, "observed": tab.get(name), "reference_c11": ref[name],
                            "how": "gcc -std=%s on a program printing sizeof / __alignof__ / signedness of the typedefs of a/a.h" % std},
                           found_input=True)
    ctx.count(evaluations=n)
    ctx.cov["language_modes"] = {"modes": sorted(res), "typedefs": len(names)}
    ctx.log("language-mode sweep: %d scalar typedefs x %d modes" % (len(names), len(res)))


def run(ctx):
    if not ctx.quick:
        # thorough: rebuild this property's own files from clean
        deps = [d for d in ctx.coq_deps("Properties_C20.v") if d.startswith("C20/")]
        ctx.coq_build(["Properties_C20.v"], force=tuple(deps))
    ok = ctx.prove()
    stats = run_real(ctx, ok) or {"lines": 0}
    language_mode_sweep(ctx)

    t0 = time.time()
    cc = corpus_cases()
    n_good = run_cases(ctx, cc, "corpus", stats) if cc else 0
    n_cases = len(cc)
    if ctx.quick:
        batches, per = 4, 40
    else:
        batches, per = 120, 60
    group = 4 if ctx.quick else 10
    all_cases = []
    for b in range(batches):
        rng = random.Random(ctx.subseed("synthetic/%d" % b))
        lib_rs, header, notes = A.synth_sources(rng, per)
        all_cases.append(("syn%d" % b, lib_rs, header, None))
    for g in range(0, len(all_cases), group):
        n_good += run_cases(ctx, all_cases[g:g + group], "g%d" % (g // group), stats)
        n_cases += len(all_cases[g:g + group])
    ctx.log("synthetic/corpus declaration lists: %d/%d agree, %.1fs" % (n_good, n_cases, time.time() - t0))
    ctx.count(evaluations=stats.get("syn_structs", 0) + stats.get("syn_fns", 0), nontrivial=stats.get("syn_nontrivial", 0))
    ctx.cov["rule"] = ("evaluations = declarations compared (real tree: structs+fields+fns+params+results+statics per width; "
                       "synthetic: records+fns); distinct_nontrivial = records whose layout has padding, a member larger "
                       "than 16 bytes (array/nested record) or is a union")
    ctx.cov["layout_lines_compared_with_compilers"] = stats["lines"]
    ctx.cov["synthetic"] = {k: v for k, v in stats.items() if k.startswith("syn_")}
    kinds = set(stats.get("syn_mismatch_kinds", {}))
    allk = set(re.sub(r"%s", "#", v.replace("/%s", "/*", 1)) for v in A.MM_KEY.values())
    ctx.cov["synthetic"]["mismatch_kinds_not_exercised"] = sorted(allk - kinds)
    ctx.cov["synthetic"]["lists"] = n_cases
    ctx.cov["synthetic"]["lists_agreeing"] = n_good

    ctx.cov["trusted_base"] += [
        "translator harness/C20/abi2coq.py (clang JSON AST of the headers; purpose-built parser of src/lib.rs); its type "
        "resolution is re-checked on every run by gcc and clang (_Static_assert(__builtin_types_compatible_p) on every "
        "prototype/variable) and by rustc (fn-pointer coercion of every foreign fn, typed accessor of every field)",
        "platform: x86-64 SysV LP64 (pointers 8/8); the layout model is compared with gcc, clang and rustc output on every run; "
        "rustc's repr(C) = C layout is observed on these structs, not proved",
        "the compatibility relation [compat] of coq/C20/AbiDefs.v (char ~ i8/u8, void* wildcard, pointer-to-array ~ "
        "pointer-to-element, field name = or + '_', mirror name a_<name>, rust_only list) is a definition a reader must agree with",
        "nm on objects compiled from the current src/*.c for symbol existence; nm -D on the shared object linked from them "
        "(gcc -fPIC -fvisibility=hidden -DA_EXPORTS, the flags of set_library_compile / set_library_options in CMakeLists.txt) "
        "for export: compiler-observed, host only (ELF visibility; the Windows dllexport path uses the same A_PUBLIC macro)",
        "cross targets (harness/C20/abix.py): clang --target=<T> -ffreestanding -nostdlibinc -isystem harness/C20/stubs and "
        "rustc --target <T'> front ends only (clang constant evaluation read from the JSON AST; rustc #[rustc_layout] in a "
        "#![no_core] crate, RUSTC_BOOTSTRAP=1); the pairing T <-> T' is checked on the size/alignment of 15 primitives; "
        "core::ffi aliases per target as documented by Rust (c_int = int, c_uint = unsigned int are the only ones used); "
        "the layout parameters handed to the Coq model (pointer size, alignment of 8/16-byte scalars) are the observed ones "
        "and the model's layout is compared with both compilers' on every target"]
    if not ctx.quick:
        rc, out = vlib.sh(["coqchk", "-silent", "-o", "-Q", ".", "LibaV", "LibaV.Properties_C20"], cwd=vlib.COQ, timeout=900)
        if rc != 0:
            ctx.tie_broken("coqchk rejected Properties_C20: " + out[-400:])
        else:
            ctx.cov["trusted_base"].append("coqchk -o LibaV.Properties_C20: accepted")


def replay(ctx, path):
    """Re-evaluate the oracle on the current tree and tell whether the recorded declaration still fails."""
    obj = json.loads(Path(path).read_text())
    key = obj.get("key")
    ctx.c20_keys = []
    run_real(ctx, ctx.prove())
    still = key in ctx.c20_keys
    print("replay %s: declaration %s -> %s on %s" % (path, key, "STILL FAILS" if still else "no longer fails", vlib.REPO))
    ctx.finish()
    return 1 if still else 0


META = {
    "text": "Reflection proof in Rocq: abi_compatible (a boolean function on two declaration lists) is proved sound - "
            "abi_compatible r c = true implies, for every repr(C) struct, equal kind/size/alignment/field count and per field "
            "equal offset/size/alignment/compatible name, type and machine class, and for every extern fn equal arity, parameter "
            "classes in order and result class; layout_wf and read_field_agree (bytes written through one declaration are read "
            "identically through the other). Both declaration lists are REGENERATED on every run from the current src/lib.rs and "
            "include/a/*.h (f64 and f32) and abi_compatible ... = true is re-checked by coqc (vm_compute) against them. The same is "
            "done for the other data models the project supports: the layout rule and the reflection are proved for every target "
            "(pointer size, alignment of 8/16-byte scalars: coq/C20/AbiTarget.v; at the host's parameters it IS the host model), "
            "and for i686 Linux (ILP32, 8-byte scalars aligned to 4), Windows x64 MinGW and MSVC (LLP64), AArch64 Linux and 32-bit "
            "ARM EABI with -fshort-enums both lists are regenerated with that target's compiler front ends (clang --target JSON AST "
            "with the target's own base-type table; lib.rs with the target's usize / core::ffi) and abi_compatible_t <target> ... = "
            "true is re-proved (6 theorems per target). Compiler-observed, not theorems: that every foreign fn/static of lib.rs is "
            "an exported dynamic symbol of the shared library built with the project's flags (nm -D), and the per-target layouts "
            "clang and rustc report, against which the model's layout is compared line by line.",
    "note": "Trusted: Coq kernel/vm_compute; the translator harness/C20/abi2coq.py + abix.py (clang JSON AST + a parser for the "
            "lib.rs subset), whose type resolution and the model's layout rule are cross-checked every run against gcc, clang and "
            "rustc on the host (sizeof/alignof/offsetof of every record, type-compatibility static asserts, nm for symbol "
            "existence) and against clang --target / rustc --target for every cross target (front ends only, nothing is run: "
            "clang's constant evaluator for sizeof/_Alignof/offsetof and __builtin_types_compatible_p, rustc's layout_of through "
            "#[rustc_layout] in a #![no_core] crate with RUSTC_BOOTSTRAP=1; stub <math.h>/<string.h> in harness/C20/stubs); the "
            "pairing of a clang triple with a rustc triple (checked on the primitives' size/alignment) and core::ffi's per-target "
            "aliases (c_int = int, ...: only c_int/c_uint occur); x86-64 LP64 for the programs that are run; the definitions "
            "compat / rust_only a reader must agree with; repr(C) = C layout rule is observed against rustc, not proved; the "
            "shared-object check uses gcc/ld/nm on the host with -fPIC -fvisibility=hidden -DA_EXPORTS as in CMakeLists.txt "
            "(set_library_compile / set_library_options), not the CMake build itself. No axioms.",
    "technique": "Rocq proof by reflection (sound boolean checker, vm_compute on declarations regenerated from the sources by a "
                 "translator, per data model); differential checks against compilers (cross-target front ends, exported symbols, "
                 "scalar typedefs of a/a.h in every language mode gnu89 / c99 / c11 / c2x / c++11)",
}
