"""C20 - the Rust binding's mirrored types and foreign declarations match the C ABI.

One run (see DESIGN.md C20, CONVENTIONS.md):
  1. prove       coq/Properties_C20.v (layout_wf, abi_compatible_sound, read_field_agree, ...).
  2. regenerate  both declaration lists from the CURRENT tree ($VERIF_REPO): C side = clang JSON AST
                 of include/a/*.h, Rust side = parser of src/lib.rs, once per real width
                 (harness/C20/abi2coq.py) -> build/C20/AbiGen.v.
  3. reflect     build/C20/AbiGenThm.v: `abi_compatible rust_fXX c_fXX = true` by vm_compute, its
                 consequences by the soundness theorem; counted as obligations.
  4. tie         the model's own layout function (vm_compute in coqc) against gcc, clang (C lists)
                 and rustc (Rust lists) line by line; the translator's type resolution is
                 type-checked by the compilers (_Static_assert(__builtin_types_compatible_p) /
                 fn-pointer coercions); nm on objects built from the current sources confirms every
                 declared symbol; a corpus case and random synthetic declaration lists (padding,
                 nesting, arrays, unions, perturbed mirrors) go through the whole pipeline and the
                 model's mismatch list must equal the independent oracle's.
  5. search oracle  the property itself evaluated on what the COMPILERS report (rustc layout vs C
                 compiler layout) and on the parsed prototypes with an independent Python
                 compatibility relation: every disagreeing declaration is a concrete failing input.
"""
import json
import random
import re
import shutil
import sys
import time
from concurrent.futures import ThreadPoolExecutor
from pathlib import Path

import vlib

sys.path.insert(0, str(vlib.VERIF / "harness" / "C20"))
import abi2coq as A  # noqa: E402

WIDTHS = ((8, "f64", False), (4, "f32", True))


# ------------------------------------------------------------------------------------------ helpers

def coqc(ctx, name, text, timeout=600):
    rc, out = ctx.coq_eval(name, text, timeout=timeout)
    (ctx.build / (name + ".log")).write_text(out)
    return rc, out


def build_c_probe(ctx, tag, text, include_dir, cfg, compiler="gcc"):
    src = ctx.build / ("probe_%s.c" % tag)
    src.write_text(text)
    exe = ctx.build / ("probe_%s_%s" % (tag, compiler))
    cmd = [compiler, "-std=c11", "-w", "-I", str(include_dir), "-DA_EXPORTS", '-DA_HAVE_H="%s"' % cfg,
           str(src), "-o", str(exe)]
    rc, out = vlib.sh(cmd, timeout=120)
    if rc != 0:
        return None, out
    rc, out = vlib.sh([str(exe)], timeout=60)
    if rc != 0:
        return None, out
    return out.splitlines(), ""


def build_rust_probe(ctx, tag, text, float_feature):
    src = ctx.build / ("probe_%s.rs" % tag)
    src.write_text(text)
    exe = ctx.build / ("probe_%s_rs" % tag)
    cmd = ["rustc", "--edition", "2018", "--crate-name", "liba_probe", "--crate-type", "bin",
           "-A", "warnings", "--cfg", 'feature="std"']
    if float_feature:
        cmd += ["--cfg", 'feature="float"']
    cmd += [str(src), "-o", str(exe)]
    rc, out = vlib.sh(cmd, timeout=300)
    if rc != 0:
        return None, out
    rc, out = vlib.sh([str(exe)], timeout=60)
    if rc != 0:
        return None, out
    return out.splitlines(), ""


def split_probe(lines):
    base = [ln for ln in lines if ln.startswith("B ")]
    lay = [ln for ln in lines if ln[:2] in ("S ", "F ")]
    return base, lay


def check_c_base(ctx, base, who):
    """the translator's table of C base types against what the compiler says"""
    ok = True
    for ln in base:
        name, size, align, kind = ln[2:].split("|")
        if name in A.C_BASE:
            b = A.C_BASE[name]
            if b[0] == "bool":
                exp = (1, 1)
            else:
                exp = (b[1], b[1])
            if (int(size), int(align)) != exp:
                ctx.tie_broken("%s: base type %s has size/align %s/%s, the translator assumes %s" % (who, name, size, align, exp))
                ok = False
            if b[0] == "int" and b[2] in ("s", "u") and kind != b[2]:
                ctx.tie_broken("%s: base type %s signedness %s, translator assumes %s" % (who, name, kind, b[2]))
                ok = False
        elif kind == "p" and (size, align) != ("8", "8"):
            ctx.tie_broken("%s: pointer size %s/%s, the model assumes 8/8" % (who, size, align))
            ok = False
    return ok


def check_rust_base(ctx, base, who):
    ok = True
    for ln in base:
        name, size, align = ln[2:].split("|")
        if name in A.RUST_PRIMS:
            b = A.RUST_PRIMS[name]
            exp = (1, 1) if b[0] == "bool" else (b[1], b[1])
        else:
            exp = (8, 8)
        if (int(size), int(align)) != exp:
            ctx.tie_broken("%s: primitive %s has size/align %s/%s, the translator assumes %s" % (who, name, size, align, exp))
            ok = False
    return ok


def compare_lines(ctx, what, model, impl, stats):
    """canonical layout lines of the model against a compiler's; returns True when equal"""
    stats["lines"] += len(impl)
    i = vlib.first_diff(model, impl)
    if i is None:
        return True
    m = model[i] if i < len(model) else "<end>"
    c = impl[i] if i < len(impl) else "<end>"
    ctx.tie_broken("correspondence %s: line %d differs: model `%s` vs compiler `%s`" % (what, i, m, c))
    return False


def nontrivial_structs(lines):
    """rule for distinct_nontrivial: records whose layout has padding (internal or tail), a nested
    record/array member, or is a union"""
    lay = A.parse_layout_lines(lines)
    n = 0
    for name, s in lay.items():
        used = sum(f[2] for f in s["fields"])
        if s["kind"] == "union" or used != s["size"] or any(f[2] > 16 for f in s["fields"]):
            n += 1
    return n


def defined_symbols(ctx, real):
    """nm over objects compiled from the CURRENT src/*.c"""
    cfg = ctx.cfg_header(real=real)
    od = ctx.build / ("obj_r%d" % real)
    if od.exists():
        shutil.rmtree(od)
    od.mkdir(parents=True)
    srcs = sorted((vlib.REPO / "src").glob("*.c"))

    def one(s):
        o = od / (s.stem + ".o")
        return s, vlib.sh(["gcc", "-std=c11", "-O0", "-w", "-I", str(vlib.REPO / "include"), "-DA_EXPORTS",
                           '-DA_HAVE_H="%s"' % cfg, "-c", str(s), "-o", str(o)], timeout=120)
    with ThreadPoolExecutor(max_workers=vlib.NPROC) as ex:
        res = list(ex.map(one, srcs))
    bad = [(s, o) for s, (rc, o) in res if rc != 0]
    if bad:
        raise vlib.CheckError("src/%s does not compile: %s" % (bad[0][0].name, bad[0][1][-800:]))
    rc, out = vlib.sh("nm -g --defined-only %s/*.o" % od, timeout=60)
    syms = {}
    for ln in out.splitlines():
        w = ln.split()
        if len(w) == 3:
            syms[w[2]] = w[1]
    return syms


# ------------------------------------------------------------------------------------------ real tree

def run_real(ctx, proofs_ok):
    stats = {"lines": 0}
    named, by_width = [], {}
    for real, tag, flt in WIDTHS:
        cfg = ctx.cfg_header(real=real)
        try:
            c = A.c_decls(vlib.REPO, cfg, ctx.build, real)
            r = A.rust_decls(vlib.REPO, flt)
        except A.AbiError as e:
            ctx.tie_broken("translator (abi2coq) cannot render the current declarations [%s]: %s" % (tag, str(e)[:600]))
            return None
        # records the translator cannot express are left out of the C list (a Rust mirror of one then
        # has no C record and is reported)
        skipped = [s[0] for s in c.structs if any(A.has_unsupported(ft) for _, ft in s[2])]
        c.structs = [s for s in c.structs if s[0] not in skipped]
        if skipped:
            ctx.notes.append("C records not representable in the model (left out) [%s]: %s" % (tag, skipped))
        named += [("c_" + tag, c), ("rust_" + tag, r)]
        by_width[tag] = (real, flt, cfg, c, r)
    pairs = [(tag, "rust_" + tag, "c_" + tag) for _, tag, _ in WIDTHS]

    rc, out = coqc(ctx, "AbiGen", A.emit_decls_file(str(vlib.REPO), named))
    if rc != 0:
        ctx.tie_broken("generated declarations do not compile (translator bug?): " + out[-500:])
        return None
    ev = A.emit_eval_file("AbiGen", pairs, [n for n, _ in named])
    ev += 'Eval vm_compute in ("BEGIN-DUMP rust_only", rust_only, "END-DUMP").\n'
    rc, out = coqc(ctx, "AbiGenEval", ev)
    if rc != 0:
        ctx.tie_broken("model evaluation failed: " + out[-500:])
        return None
    dumps, mms = A.parse_eval_output(out)
    if tuple(dumps.get("rust_only", [])) != tuple(A.RUST_ONLY):
        ctx.tie_broken("rust_only list of AbiDefs.v %s differs from the oracle's %s" % (dumps.get("rust_only"), A.RUST_ONLY))

    # reflection theorems against the regenerated lists
    thm_src = A.emit_thm_file("AbiGen", pairs)
    n_thm = len(re.findall(r"^Theorem ", thm_src, flags=re.M))
    ctx.cov["obligations"] += n_thm
    thm_ok = False
    if proofs_ok:
        rc, out = coqc(ctx, "AbiGenThm", thm_src)
        n_closed = len(re.findall(r"^Closed under the global context", out, flags=re.M))
        if rc == 0 and n_closed == n_thm:
            thm_ok = True
            ctx.cov["discharged"] += n_thm
            ctx.cov.setdefault("theorems", []).extend(re.findall(r"^Theorem (\w+)", thm_src, flags=re.M))
            ctx.cov["trusted_base"].append("generated build/C20/AbiGenThm.v: %d reflection theorems, all closed under the global context" % n_thm)
        else:
            m = re.search(r'line (\d+)', out)
            which = "?"
            if m:
                which = vlib.enclosing_name(ctx.build / "AbiGenThm.v", int(m.group(1)))
            ctx.tie_broken("reflection theorem %s no longer checks against the regenerated declarations: %s"
                           % (which, " ".join(out.split())[-300:]))
    ctx.cov["checker_cmd"] += ("; coqc -Q coq LibaV on build/C20/AbiGen.v, AbiGenEval.v, AbiGenThm.v (regenerated from "
                               "%s on this run)" % vlib.REPO)

    # layout model against the compilers; translator's type resolution type-checked by the compilers
    reported = {}
    nm_cache = {}
    for tag, (real, flt, cfg, c, r) in by_width.items():
        layouts = {}
        for comp in ("gcc", "clang"):
            lines, err = build_c_probe(ctx, tag, A.c_probe(c), vlib.REPO / "include", cfg, comp)
            if lines is None:
                m = re.search(r'resolved (?:prototype|type) of (\w+)', err)
                ctx.tie_broken("C probe [%s/%s] failed%s: %s" % (tag, comp, " (translator mis-resolved %s)" % m.group(1) if m else "",
                                                                 " ".join(err.split())[-400:]))
                continue
            base, lay = split_probe(lines)
            check_c_base(ctx, base, "%s/%s" % (comp, tag))
            compare_lines(ctx, "layout model vs %s [c_%s]" % (comp, tag), dumps.get("c_" + tag, []), lay, stats)
            layouts[comp] = lay
        rl, err = build_rust_probe(ctx, tag, A.rust_probe(r), flt)
        if rl is None:
            ctx.tie_broken("rustc probe [%s] failed (lib.rs does not compile, or the parser mis-read a type): %s"
                           % (tag, " ".join(err.split())[-600:]))
            rlay = None
        else:
            base, rlay = split_probe(rl)
            check_rust_base(ctx, base, "rustc/" + tag)
            compare_lines(ctx, "layout model vs rustc [rust_%s]" % tag, dumps.get("rust_" + tag, []), rlay, stats)
        clay = layouts.get("gcc") or layouts.get("clang")

        # the search oracle: compilers' numbers + independent compatibility relation
        have = rlay is not None and clay is not None
        oracle = A.py_mismatches(r, c, rlay if have else None, clay if have else None)
        if have:
            ctx.count(evaluations=len(r.structs) + sum(len(s[2]) for s in r.structs) + len(r.funs)
                      + sum(len(f[1]) + 1 for f in r.funs) + len(r.vars),
                      nontrivial=nontrivial_structs(rlay))
        model_keys = sorted(A.mm_key(t) for t in mms.get(tag, ["<none>"]))
        oracle_keys = sorted(k for k, _, _ in oracle)
        if not have:
            # without compiler layouts the oracle sees names/counts/types only: it must find a subset
            if not set(oracle_keys) <= set(model_keys):
                ctx.tie_broken("oracle [%s] reports %s which the model does not" % (tag, sorted(set(oracle_keys) - set(model_keys))[:6]))
        elif model_keys != oracle_keys:
            ctx.tie_broken("abi_mismatches [%s] (model) %s differs from the oracle %s" % (tag, model_keys[:6], oracle_keys[:6]))
        elif model_keys and not thm_ok:
            pass     # the broken reflection theorem is explained by these mismatches
        # symbols
        syms = defined_symbols(ctx, real) if (real == 8 or not ctx.quick) else nm_cache.get("syms", {})
        nm_cache["syms"] = syms
        for (n, ps, rt) in r.funs:
            if syms and syms.get(n) not in ("T", "t", "W", "i"):
                oracle.append(("fn/%s/no-symbol" % n, "foreign fn %s is declared in lib.rs but the library built from "
                               "the current sources defines no such function (nm: %s)" % (n, syms.get(n)), {"fn": n}))
        for (n, t) in r.vars:
            if syms and syms.get(n) not in ("D", "R", "B", "d", "r", "b", "G", "S", "C", "V"):
                oracle.append(("static/%s/no-symbol" % n, "foreign static %s has no definition in the library (nm: %s)"
                               % (n, syms.get(n)), {"static": n}))
        for key, what, det in oracle:
            reported.setdefault(key, (what, det, []))[2].append(tag)
        ctx.cov.setdefault("declarations", {})[tag] = {
            "rust_structs": len(r.structs), "rust_fns": len(r.funs), "rust_statics": len(r.vars),
            "c_records": len(c.structs), "c_fns": len(c.funs), "c_vars": len(c.vars),
            "model_mismatches": mms.get(tag), "ffi_aliases_used": r.meta["ffi_used"]}
    ctx.c20_keys = sorted(reported)
    for key, (what, det, tags) in sorted(reported.items()):
        line = None
        m = re.match(r"(fn|static|struct)/(\w+)", key)
        r = by_width["f64"][4]
        if m:
            line = {"fn": r.meta["fn_lines"], "static": r.meta["var_lines"], "struct": r.meta["lines"]}[m.group(1)].get(m.group(2))
        ctx.report(key, what + " [configurations: %s]" % ",".join(tags),
                   {"kind": "declaration", "key": key, "detail": det, "configurations": tags,
                    "lib_rs_line": line, "repo": str(vlib.REPO),
                    "how": "python3 tools/vcheck.py C20 --replay <this file>"}, found_input=True)
    ctx.sample({"struct": "pid_fuzzy (f64)", "model/rustc/gcc layout": [ln for ln in dumps.get("rust_f64", []) if " pid_fuzzy " in ln][:4]})
    ctx.sample({"fn": "a_pid_fuzzy_opr", "rust": next((A.coq_ty(A.T_ptr(A.T_fn(f[1], f[2]))) for f in by_width["f64"][4].funs if f[0] == "a_pid_fuzzy_opr"), None),
                "c": next((A.coq_ty(A.T_ptr(A.T_fn(f[1], f[2]))) for f in by_width["f64"][3].funs if f[0] == "a_pid_fuzzy_opr"), None)})
    return stats


# ------------------------------------------------------------------------------------------ synthetic

def fake_repo(ctx, name, lib_rs, header):
    d = ctx.build / "synth" / name
    if d.exists():
        shutil.rmtree(d)
    (d / "include" / "a").mkdir(parents=True)
    (d / "src").mkdir()
    (d / "include" / "a" / "synth.h").write_text(header)
    (d / "src" / "lib.rs").write_text(lib_rs)
    return d


def run_cases(ctx, cases, label, stats):
    """cases: [(name, lib_rs, header, expected_keys or None)].  Every case goes through the real
    pipeline: clang AST -> Ty, Rust parser -> Ty, Coq model (layout + mismatches), gcc, rustc, and the
    independent oracle.  Returns number of cases on which everything agreed."""
    cfg = ctx.cfg_header(real=8)
    named, info = [], []
    for (name, lib_rs, header, expected) in cases:
        d = fake_repo(ctx, name, lib_rs, header)
        try:
            c = A.c_decls(d, cfg, d, 8)
            r = A.rust_decls(d, False)
        except A.AbiError as e:
            ctx.tie_broken("%s case %s: translator failed on generated declarations: %s" % (label, name, str(e)[:300]))
            continue
        named += [("c_" + name, c), ("rust_" + name, r)]
        info.append((name, d, c, r, expected))
    if not info:
        return 0
    mod = "AbiSyn_" + label
    rc, out = coqc(ctx, mod, A.emit_decls_file("synthetic", named))
    if rc != 0:
        ctx.tie_broken("%s: generated declarations do not compile: %s" % (label, out[-400:]))
        return 0
    pairs = [(n, "rust_" + n, "c_" + n) for (n, _, _, _, _) in info]
    rc, out = coqc(ctx, mod + "Eval", A.emit_eval_file(mod, pairs, [n for n, _ in named]))
    if rc != 0:
        ctx.tie_broken("%s: model evaluation failed: %s" % (label, out[-400:]))
        return 0
    dumps, mms = A.parse_eval_output(out)

    def probes(item):
        name, d, c, r, expected = item
        cl, cerr = build_c_probe(ctx, "syn_" + name, A.c_probe(c), d / "include", cfg, "gcc")
        rl, rerr = build_rust_probe(ctx, "syn_" + name, A.rust_probe(r), False)
        return cl, cerr, rl, rerr
    with ThreadPoolExecutor(max_workers=max(2, vlib.NPROC // 2)) as ex:
        pr = list(ex.map(probes, info))
    good = 0
    for (name, d, c, r, expected), (cl, cerr, rl, rerr) in zip(info, pr):
        if cl is None or rl is None:
            ctx.tie_broken("%s case %s: probe failed: %s" % (label, name, " ".join((cerr or rerr).split())[-400:]))
            continue
        _, clay = split_probe(cl)
        _, rlay = split_probe(rl)
        ok = compare_lines(ctx, "%s/%s layout model vs gcc" % (label, name), dumps.get("c_" + name, []), clay, stats)
        ok = compare_lines(ctx, "%s/%s layout model vs rustc" % (label, name), dumps.get("rust_" + name, []), rlay, stats) and ok
        oracle = sorted(k for k, _, _ in A.py_mismatches(r, c, rlay, clay))
        model = sorted(A.mm_key(t) for t in mms.get(name, ["<none>"]))
        if oracle != model:
            ok = False
            diff = sorted(set(oracle) ^ set(model))
            ctx.tie_broken("%s case %s: model mismatches differ from oracle: %s" % (label, name, diff[:5]))
        if expected is not None and sorted(expected) != model:
            ok = False
            ctx.tie_broken("%s case %s: expected mismatches %s, model reports %s" % (label, name, sorted(expected)[:6], model[:6]))
        stats["syn_structs"] = stats.get("syn_structs", 0) + len(r.structs) + len(c.structs)
        stats["syn_fns"] = stats.get("syn_fns", 0) + len(r.funs)
        stats["syn_mismatch_keys"] = stats.get("syn_mismatch_keys", 0) + len(model)
        stats["syn_nontrivial"] = stats.get("syn_nontrivial", 0) + nontrivial_structs(clay) + nontrivial_structs(rlay)
        for k in model:
            kind = re.sub(r"/\w+?/", "/*/", k, count=1)
            kind = re.sub(r"/\d+", "/#", kind)
            stats.setdefault("syn_mismatch_kinds", {})
            stats["syn_mismatch_kinds"][kind] = stats["syn_mismatch_kinds"].get(kind, 0) + 1
        good += ok
    return good


def corpus_cases():
    res = []
    cd = vlib.VERIF / "corpus" / "C20"
    for d in sorted(p for p in cd.iterdir() if p.is_dir()) if cd.exists() else []:
        exp = json.loads((d / "expected.json").read_text())
        res.append((d.name, (d / "lib.rs").read_text(), (d / "synth.h").read_text(), exp["model_mismatch_keys"]))
    return res


# ------------------------------------------------------------------------------------------ entry

def run(ctx):
    if not ctx.quick:
        # thorough: rebuild this property's own files from clean
        deps = [d for d in ctx.coq_deps("Properties_C20.v") if d.startswith("C20/")]
        ctx.coq_build(["Properties_C20.v"], force=tuple(deps))
    ok = ctx.prove()
    stats = run_real(ctx, ok) or {"lines": 0}

    t0 = time.time()
    cc = corpus_cases()
    n_good = run_cases(ctx, cc, "corpus", stats) if cc else 0
    n_cases = len(cc)
    if ctx.quick:
        batches, per = 4, 40
    else:
        batches, per = 120, 60
    group = 4 if ctx.quick else 10
    all_cases = []
    for b in range(batches):
        rng = random.Random(ctx.subseed("synthetic/%d" % b))
        lib_rs, header, notes = A.synth_sources(rng, per)
        all_cases.append(("syn%d" % b, lib_rs, header, None))
    for g in range(0, len(all_cases), group):
        n_good += run_cases(ctx, all_cases[g:g + group], "g%d" % (g // group), stats)
        n_cases += len(all_cases[g:g + group])
    ctx.log("synthetic/corpus declaration lists: %d/%d agree, %.1fs" % (n_good, n_cases, time.time() - t0))
    ctx.count(evaluations=stats.get("syn_structs", 0) + stats.get("syn_fns", 0), nontrivial=stats.get("syn_nontrivial", 0))
    ctx.cov["rule"] = ("evaluations = declarations compared (real tree: structs+fields+fns+params+results+statics per width; "
                       "synthetic: records+fns); distinct_nontrivial = records whose layout has padding, a member larger "
                       "than 16 bytes (array/nested record) or is a union")
    ctx.cov["layout_lines_compared_with_compilers"] = stats["lines"]
    ctx.cov["synthetic"] = {k: v for k, v in stats.items() if k.startswith("syn_")}
    kinds = set(stats.get("syn_mismatch_kinds", {}))
    allk = set(re.sub(r"%s", "#", v.replace("/%s", "/*", 1)) for v in A.MM_KEY.values())
    ctx.cov["synthetic"]["mismatch_kinds_not_exercised"] = sorted(allk - kinds)
    ctx.cov["synthetic"]["lists"] = n_cases
    ctx.cov["synthetic"]["lists_agreeing"] = n_good

    ctx.cov["trusted_base"] += [
        "translator harness/C20/abi2coq.py (clang JSON AST of the headers; purpose-built parser of src/lib.rs); its type "
        "resolution is re-checked on every run by gcc and clang (_Static_assert(__builtin_types_compatible_p) on every "
        "prototype/variable) and by rustc (fn-pointer coercion of every foreign fn, typed accessor of every field)",
        "platform: x86-64 SysV LP64 (pointers 8/8); the layout model is compared with gcc, clang and rustc output on every run; "
        "rustc's repr(C) = C layout is observed on these structs, not proved",
        "the compatibility relation [compat] of coq/C20/AbiDefs.v (char ~ i8/u8, void* wildcard, pointer-to-array ~ "
        "pointer-to-element, field name = or + '_', mirror name a_<name>, rust_only list) is a definition a reader must agree with",
        "nm on objects compiled from the current src/*.c for symbol existence"]
    if not ctx.quick:
        rc, out = vlib.sh(["coqchk", "-silent", "-o", "-Q", ".", "LibaV", "LibaV.Properties_C20"], cwd=vlib.COQ, timeout=900)
        if rc != 0:
            ctx.tie_broken("coqchk rejected Properties_C20: " + out[-400:])
        else:
            ctx.cov["trusted_base"].append("coqchk -o LibaV.Properties_C20: accepted")


def replay(ctx, path):
    """Re-evaluate the oracle on the current tree and tell whether the recorded declaration still fails."""
    obj = json.loads(Path(path).read_text())
    key = obj.get("key")
    ctx.c20_keys = []
    run_real(ctx, ctx.prove())
    still = key in ctx.c20_keys
    print("replay %s: declaration %s -> %s on %s" % (path, key, "STILL FAILS" if still else "no longer fails", vlib.REPO))
    ctx.finish()
    return 1 if still else 0


META = {
    "text": "Reflection proof in Rocq: abi_compatible (a boolean function on two declaration lists) is proved sound - "
            "abi_compatible r c = true implies, for every repr(C) struct, equal kind/size/alignment/field count and per field "
            "equal offset/size/alignment/compatible name, type and machine class, and for every extern fn equal arity, parameter "
            "classes in order and result class; layout_wf and read_field_agree (bytes written through one declaration are read "
            "identically through the other). Both declaration lists are REGENERATED on every run from the current src/lib.rs and "
            "include/a/*.h (f64 and f32) and abi_compatible ... = true is re-checked by coqc (vm_compute) against them.",
    "note": "Trusted: Coq kernel/vm_compute; the translator harness/C20/abi2coq.py (clang JSON AST + a parser for the lib.rs "
            "subset), whose type resolution and the model's layout rule are cross-checked every run against gcc, clang and "
            "rustc (sizeof/alignof/offsetof of every record, type-compatibility static asserts, nm for symbol existence); "
            "x86-64 LP64; the definitions compat / rust_only a reader must agree with; repr(C) = C layout rule is observed "
            "against rustc, not proved. No axioms.",
    "technique": "Rocq proof by reflection (sound boolean checker, vm_compute on declarations regenerated from the sources by a translator)",
}
