"""C12: PID controllers (plain, single neuron; the fuzzy-tuned one is modelled in coq/C13 - its histories run here through
checks/C13.py controller_part, bit for bit against that model and through its oracle).

Proof over R (coq/Properties_C12.v).  Tie: bit-exact binary64 execution of the same Gallina terms vs the C.
Search oracle: the property on the C outputs - limits, finiteness, integrator clamp monotonicity, exact rational
reference of the difference equations on integer-valued data, pos == inc while no limit is active, zero == fresh."""
import math
from fractions import Fraction

import fcorr
import vlib

META = {
    "text": "ON THE PRIMITIVE-FLOAT RUN (C12/PidFloat.v + C13/FuzzyFloat.v, 4 theorems: plain, single-neuron and fuzzy-tuned controllers): for finite output limits outmin <= outmax and ANY state, gains, "
            "set-point and feedback (NaN and infinities included) a_pid_run_/pos_/inc_ at Coq's binary64 floats - the instance "
            "compared bit for bit with the C - store a finite output within the limits, over every non-empty history; no overflow "
            "hypothesis (state finiteness is not claimed there).  "
            "Rocq theorems over the reals for ALL histories (any length, the three modes mixed arbitrarily), all gains and "
            "limits with outmin<=outmax, ki>=0, summin<=0<=summax: output within the limits after every step (induction over "
            "the history), parameters never changed, the positional integrator never moves further beyond a clamp once outside "
            "and overshoots by at most one increment over every history, positional/incremental outputs equal the documented "
            "difference equations and coincide step by step on every history on which no limit is active (coupling invariant "
            "out_inc = kp*e + sum + kd*var), zero = freshly initialised (state-independent, idempotent, same future); single "
            "neuron: output within limits, the normalising denominator vanishes iff all updated weights are zero and the "
            "quotient reaches no other state field (A_SAT maps the NaN to outmin). Rounded instance Rnd_ops rnd (every + - * / "
            "followed by rnd, comparisons exact, overflow outside the model; C12/PidRound.v): output within the limits after "
            "every step of every mixed-mode history and for the neuron holds verbatim for EVERY rnd, and for monotone rnd with "
            "rnd 0=0, rnd(-x)=-rnd x (binary64 round-to-nearest-even by Flocq) and format-valued sum/limits the positional "
            "integrator never moves further beyond a clamp (verbatim) and over every history stays within "
            "[rnd(summin-rnd(ki*E)), rnd(summax+rnd(ki*E))], i.e. overshoots by at most one rounded increment. "
            "Tie: bit-exact binary64 run vs the C. The fuzzy-tuned controller delegates to the same step functions after its gain "
            "update (model coq/C13/FuzzyDefs.v, gain theorems in Properties_C13.v); its run/pos/inc/zero histories are executed "
            "here too, bit for bit against that model, with every combination of present and NULL rule tables and all operator "
            "enumerators, and judged by the oracle (limits, finiteness, gains). "
            "Glue around the modelled core (differential tests, not theorems): every C++ member function of a_pid, a_pid_neuro and "
            "a_pid_fuzzy (22, the list is read from the headers on every run) is called next to the C function it forwards to on "
            "byte-identical objects and all fields, returned values and caller-owned arrays are compared bit for bit; and one driver "
            "generic in a_real is built as float, double and long double with ASan+UBSan and must print exactly the values of the "
            "documented equations on histories whose every intermediate is exactly representable in binary32 (tables and the fuzzy "
            "scratch block of the documented size in one pool with guard bytes).",
    "note": "Trusted: Coq kernel/vm_compute with primitive floats; real-number axioms listed by Print Assumptions; the 'same "
            "term, different NumOps instance' argument; hand transcription coq/C12/PidDefs.v validated bit for bit on the "
            "generated histories only. 'State stays finite' is proved as definedness over R plus the NaN-to-outmin behaviour of "
            "A_SAT; overflow to infinity for huge magnitudes is excluded by the property's precondition and not modelled. "
            "The glue runs (tools/vglue.py, harness/glue/) are differential tests on generated inputs, not theorems: the C API built as "
            "double is their reference for the C++ members, the documented equations evaluated with exact fractions for the float and "
            "long double builds; neither configuration is modelled in Rocq.",
    "technique": "Rocq proof over R (induction over histories, coupling invariant, nra/lra case analysis of the clamp) + model regenerated from src/pid*.c by a translator and re-tied by conversion on every run + bit-exact primitive-float model vs C correspondence",
}

H = vlib.VERIF / "harness" / "C12"


def steps_expr(steps):
    return "[" + "; ".join("(%d%%nat, (%s, %s))" % (m, fcorr.coqf(a), fcorr.coqf(f)) for m, a, f in steps) + "]"


def gen_cases(ctx):
    r = ctx.rng.__class__(ctx.subseed("c12"))
    n = 150 if ctx.quick else 3000
    cases = []
    for k in range(n):
        integer = k % 3 == 0
        if integer:
            g = lambda lo=-4, hi=4: float(r.randint(lo, hi))
            kp, ki, kd = g(0, 4), g(0, 3), g(0, 3)
            summax, summin = g(0, 20), -g(0, 20)
            outmax = g(0, 60)
            outmin = -g(0, 60)
        else:
            kp, ki, kd = r.uniform(0, 5), r.choice([0.0, r.uniform(0, 2)]), r.uniform(0, 1)
            summax, summin = r.uniform(0, 10), -r.uniform(0, 10)
            outmax = r.choice([r.uniform(0, 20), 1e9])
            outmin = r.choice([-r.uniform(0, 20), -1e9, outmax])
            if k % 17 == 0:
                summax = summin = 0.0
        kind = k % 5          # 0 mixed, 1 pos only, 2 inc only, 3 pos with saturating inputs, 4 with zero in the middle
        ln = r.choice([1, 2, 5, 12, 40])
        steps = []
        for j in range(ln):
            m = {0: r.choice([0, 1, 2]), 1: 1, 2: 2, 3: 1, 4: r.choice([1, 2])}[kind]
            if kind == 4 and j == ln // 2:
                m += 8
            amp = 100.0 if kind == 3 else 5.0
            a = float(r.randint(-9, 9)) if integer else r.uniform(-amp, amp) * r.choice([1, 1, -1])
            f = float(r.randint(-9, 9)) if integer else r.uniform(-amp, amp)
            if kind == 3 and j > ln // 2:
                a = -a
            steps.append((m, a, f))
        par = [kp, ki, kd, summax, summin, outmax, outmin]
        cl = "pid " + " ".join(fcorr.argbits(v) for v in par) + " " + " ".join("%x %s %s" % (m, fcorr.argbits(a), fcorr.argbits(f)) for m, a, f in steps)
        ce = ("pid_trace F64_ops {| kp := %s; ki := %s; kd := %s; summax := %s; summin := %s; sum := 0; outmax := %s; outmin := %s; "
              "out := 0; var := 0; fdb := 0; err := 0 |} %s" % tuple([fcorr.coqf(v) for v in par] + [steps_expr(steps)]))
        cases.append((cl, ce, ("pid", par, steps, integer)))
    # pos vs inc on the same history with no limit active (wide limits), integer data: must be bit-identical
    for k in range(n // 3):
        par = [float(r.randint(0, 4)), float(r.randint(0, 3)), float(r.randint(0, 3)), 1e6, -1e6, 1e9, -1e9]
        hist = [(float(r.randint(-9, 9)), float(r.randint(-9, 9))) for _ in range(r.choice([3, 10, 30]))]
        for mode in (1, 2):
            steps = [(mode, a, f) for a, f in hist]
            cl = "pid " + " ".join(fcorr.argbits(v) for v in par) + " " + " ".join("%x %s %s" % (m, fcorr.argbits(a), fcorr.argbits(f)) for m, a, f in steps)
            ce = ("pid_trace F64_ops {| kp := %s; ki := %s; kd := %s; summax := %s; summin := %s; sum := 0; outmax := %s; outmin := %s; "
                  "out := 0; var := 0; fdb := 0; err := 0 |} %s" % tuple([fcorr.coqf(v) for v in par] + [steps_expr(steps)]))
            cases.append((cl, ce, ("posinc", par, steps, mode, k)))
    for k in range(n):
        par = [r.uniform(0.1, 3), r.uniform(0, 1), r.uniform(0, 1), r.uniform(0, 1),
               r.choice([0.0, r.uniform(-1, 1)]), r.choice([0.0, r.uniform(-1, 1)]), r.choice([0.0, r.uniform(-1, 1)]),
               r.uniform(0, 20), -r.uniform(0, 20)]
        if k % 4 == 0:
            par[4] = par[5] = par[6] = 0.0      # all weights zero: 0/0 in the first increment
        steps = [(r.choice([0, 2, 2, 2]) + (8 if (k % 7 == 0 and j == 3) else 0), r.uniform(-5, 5), r.uniform(-5, 5))
                 for j in range(r.choice([1, 3, 8, 25]))]
        cl = "neuro " + " ".join(fcorr.argbits(v) for v in par) + " " + " ".join("%x %s %s" % (m, fcorr.argbits(a), fcorr.argbits(f)) for m, a, f in steps)
        ce = ("neuro_trace F64_ops {| npid := {| kp := %s; ki := %s; kd := %s; summax := 0; summin := 0; sum := 0; outmax := %s; outmin := %s; "
              "out := 0; var := 0; fdb := 0; err := 0 |}; nk := %s; wp := %s; wi := %s; wd := %s; nec := 0 |} %s"
              % (fcorr.coqf(par[1]), fcorr.coqf(par[2]), fcorr.coqf(par[3]), fcorr.coqf(par[7]), fcorr.coqf(par[8]),
                 fcorr.coqf(par[0]), fcorr.coqf(par[4]), fcorr.coqf(par[5]), fcorr.coqf(par[6]), steps_expr(steps)))
        cases.append((cl, ce, ("neuro", par, steps)))
    return cases


def oracle(meta, out, peer=None):
    kind = meta[0]
    if kind in ("pid", "posinc"):
        par, steps = meta[1], meta[2]
        kp, ki, kd, summax, summin, outmax, outmin = par
        integer = kind == "posinc" or meta[3]
        prev_sum = 0.0
        S = dict(sum=Fraction(0), out=Fraction(0), var=Fraction(0), fdb=Fraction(0), err=Fraction(0))
        for j, (m, a, f) in enumerate(steps):
            o, sm, var, fdb, err = out[5 * j:5 * j + 5]
            if any(v != v or abs(v) == math.inf for v in (o, sm, var, fdb, err)):
                return "step %d: controller state not finite: %r" % (j, (o, sm, var, fdb, err))
            if outmin <= outmax and not (outmin <= o <= outmax):
                return "step %d: output %r outside [%r,%r]" % (j, o, outmin, outmax)
            if m >= 8:
                prev_sum = 0.0
                S = dict(sum=Fraction(0), out=Fraction(0), var=Fraction(0), fdb=Fraction(0), err=Fraction(0))
            mm = m % 8
            if mm == 1 and ki >= 0 and summin <= 0 <= summax:
                if prev_sum >= summax and sm > prev_sum:
                    return "step %d: integrator moved further beyond summax: %r -> %r" % (j, prev_sum, sm)
                if prev_sum <= summin and sm < prev_sum:
                    return "step %d: integrator moved further beyond summin: %r -> %r" % (j, prev_sum, sm)
            prev_sum = sm
            if integer:     # exact reference of the documented equations
                e = Fraction(a) - Fraction(f)
                v = S["fdb"] - Fraction(f)
                sat = lambda x: x if Fraction(outmin) < x < Fraction(outmax) else (Fraction(outmax) if Fraction(outmin) < x else Fraction(outmin))
                if mm == 0:
                    S["out"] = sat(Fraction(a))
                elif mm == 1:
                    s0 = S["sum"]
                    if (Fraction(summin) < s0 < Fraction(summax)) or s0 * e < 0:
                        S["sum"] = s0 + Fraction(ki) * e
                    S["out"] = sat(Fraction(kp) * e + S["sum"] + Fraction(kd) * v)
                else:
                    S["out"] = sat(S["out"] + Fraction(kp) * (e - S["err"]) + Fraction(ki) * e + Fraction(kd) * (v - S["var"]))
                S["var"], S["fdb"], S["err"] = v, Fraction(f), e
                got = [Fraction(x) for x in (o, sm, var, fdb, err)]
                exp = [S["out"], S["sum"], S["var"], S["fdb"], S["err"]]
                if got != exp:
                    return "step %d (mode %d): state %s, documented equations give %s" % (j, mm, [float(x) for x in got], [float(x) for x in exp])
        if kind == "posinc" and peer is not None:
            if [out[5 * j] for j in range(len(steps))] != [peer[5 * j] for j in range(len(steps))]:
                return "positional and incremental outputs differ although no limit is active"
        return None
    if kind == "neuro":
        par, steps = meta[1], meta[2]
        outmax, outmin = par[7], par[8]
        for j in range(len(steps)):
            vals = out[8 * j:8 * j + 8]
            if any(v != v or abs(v) == math.inf for v in vals):
                return "neuron step %d: state not finite: %r" % (j, vals)
            if not (outmin <= vals[0] <= outmax):
                return "neuron step %d: output %r outside [%r,%r]" % (j, vals[0], outmin, outmax)
        return None
    return None


def run(ctx):
    ctx.prove()
    # second tie: the model is REGENERATED from the current sources by the translator and re-tied to the proved model
    ctx.translate_and_tie([("src/pid.c", ["a_pid_run_", "a_pid_pos_", "a_pid_inc_", "a_pid_zero"]),
                           ("src/pid_neuro.c", ["a_pid_neuro_inc_"])], "GenPid", H / "TiePid.v")
    ctx.assumptions += ["the fuzzy-tuned controller is modelled in coq/C13/FuzzyDefs.v (it calls these step functions after "
                        "a_pid_fuzzy_out_); its histories run here through the same bit-exact correspondence and oracle as in C13 "
                        "(checks/C13.py controller_part: every combination of present / NULL rule tables, 9 operator enumerators)",
                        "C built with gcc -O2 -ffp-contract=off"]
    cbin = ctx.cc("drv", [H / "drv.c"], repo_srcs=["pid.c", "pid_neuro.c", "a.c"], mode="num")
    ok, outs, failed = ctx.coq_build(["C12/PidDefs.v", "Common/FloatOps.v"])
    if not ok:
        raise vlib.CheckError("model does not compile: %s" % failed)
    cases = gen_cases(ctx)
    crashes = []
    c_out = fcorr.run_c(cbin, [c[0] for c in cases], crashes=crashes)
    for idx, msg in crashes:
        if msg.startswith("skipped"):
            continue
        ctx.report("%s/sanitizer" % cases[idx][2][0], "the C aborted on this case: " + msg,
                   {"case": cases[idx][0], "inputs": [repr(x) for x in cases[idx][2][1:]], "stderr": msg})
    crashed = set(i for i, _ in crashes)
    m_out = fcorr.run_model(ctx, "c12cases", ["C12.PidDefs"], [c[1] for c in cases], shard=30)
    nd = 0
    kinds = {}
    for i, (cl, ce, meta) in enumerate(cases):
        kinds[meta[0]] = kinds.get(meta[0], 0) + 1
        if i not in crashed and c_out[i] != m_out[i]:
            nd += 1
            if nd <= 3:
                j = next((k for k in range(min(len(c_out[i]), len(m_out[i]))) if c_out[i][k] != m_out[i][k]), -1)
                ctx.tie_broken("correspondence C12 (bit-exact binary64): case #%d %s...: first difference at value %d: C %s, model %s"
                               % (i, cl[:40], j, c_out[i][j:j + 1], m_out[i][j:j + 1]))
    nrep = 0
    peers = {}
    for i, (cl, ce, meta) in enumerate(cases):
        if meta[0] == "posinc":
            peers.setdefault(meta[4], {})[meta[3]] = [fcorr.fval(b) for b in c_out[i]]
    for i, (cl, ce, meta) in enumerate(cases):
        if i in crashed:
            continue
        vals = [fcorr.fval(b) for b in c_out[i]]
        peer = peers.get(meta[4], {}).get(1) if meta[0] == "posinc" and meta[3] == 2 else None
        why = oracle(meta, vals, peer)
        if why and nrep < 4:
            nrep += 1
            ctx.report("%s/history" % meta[0], why, {"case": cl, "params": meta[1], "steps": meta[2], "c_output": c_out[i]})
    ctx.count(evaluations=len(cases), nontrivial=len(set(c[0] for c in cases if len(c[2][2]) >= 2)))
    # the fuzzy-tuned controller (third controller of the property): model and harness live with C13
    import importlib
    importlib.import_module("checks.C13").controller_part(ctx)
    # ... and so does the translator tie of src/pid_fuzzy.c (walker, joint membership, weighted means: harness/C13/TieLoop*.v)
    import varr
    varr.arr_translate_and_tie(ctx, "C13")
    ctx.cov["rule"] = ("histories of 1..40 steps: mixed modes, pos only, inc only, saturating sign-flipping inputs, a_pid_zero "
                       "in the middle; integer-valued (exact rational reference) and real-valued data; pos/inc pairs on the same "
                       "history with inactive limits; neuron with random and all-zero weights; distinct = distinct case lines "
                       "with at least 2 steps")
    ctx.cov["case_kinds"] = kinds
    ctx.cov["correspondence_mismatches"] = nd
    for c in cases[:: max(1, len(cases) // 4)][:4]:
        ctx.sample({"case": c[0][:200], "model_expr": c[1][:200]})
    __import__("vglue").glue(ctx, "C12")   # glue around the modelled core: C++ member wrappers + float / long double builds (differential tests, tools/vglue.py)
