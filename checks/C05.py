"""C05 - linked lists (list.h, slist.h) and the queue (que.c/que.h).

  prove      coq/Properties_C05.v (pointer-level models in coq/C05/*Defs.v)
  tie        the extracted Gallina model (harness/C05/mdrv.ml) and the C implementation compiled from
             the current tree (harness/C05/drv.c, ASan+UBSan) run the same generated histories and must
             print the same canonical line after every operation: the whole heap (next/prev/tail of
             every node) for the lists; result, num/siz/mem, ring walked forwards and backwards, pool,
             payload of every enqueued node and the allocator request trace for the queue
  oracle     the property itself, executed on what the C printed: an abstract machine over sequences
             (class DL / SL / QU below) says what every ring/list/queue must contain after each
             operation; the dumped links must represent exactly that (next and prev mutually
             consistent, tail = last node, recycled node not enqueued, values attached to addresses...)
  accessors  both drivers also evaluate, after every line, the functions and macros that are not history
             operations (a_que_fore_/back_, a_que_fore/back/at/num/siz, the A_QUE_* typed aliases, the
             a_list_* / a_slist_* / a_que_* iteration macros in every variant, the *_entry macros, the alias
             entry points a_list_ctor/dtor, a_slist_init/dtor, a_slist_link, a_que_new/die and an allocation
             ledger): tokens w= (visited sequence of the foreach macros), e= (unchecked end accessors) and
             acc= (ok | BAD:<function>:<got>:<want>, compared inside the C driver).  A BAD token, a w= / e=
             token that contradicts the abstract state, or a primitive (link/loop/ctor/init/dtor) that
             changes anything but its own fields is a property violation reported with key <kind>/<function>
  crashes    a sanitizer abort / crash of the implementation driver is a failing input of the history
             it happened in; the histories after it are run again by a fresh process (run_c_resilient)
             so that they are judged on their own output
  shrink     ddmin on the operation list of the failing history, re-run on the implementation
"""
import json
import os
import random
import re
import sys
import time
from pathlib import Path

try:
    from tools import vlib
except ImportError:  # pragma: no cover
    import vlib
try:
    from tools import vque
except ImportError:  # pragma: no cover
    import vque

H = vlib.VERIF / "harness" / "C05"
CORPUS = vlib.VERIF / "corpus" / "C05"
U64 = 2 ** 64

META = {
    "text": "Rocq theorems over pointer-level models (heap: address -> next/prev resp. next + tail field; every field access "
            "checked) for ALL finite histories, by induction over the history with a representation invariant. "
            "list.h: every history accepted by an abstract machine over rings and detached chains (init, add_, add_node, "
            "add_next/prev, del_, del_node/next/prev, set_, set_node, mov_next/prev, rot_next/prev, swap_, swap_node; "
            "preconditions: node to add is on no ring, sections given in ring order, swapped sections disjoint and not "
            "adjacent, mov takes another ring) runs without fault and leaves every ring a ring of the heap: next/prev "
            "mutually consistent, walk from any node = the abstract cyclic sequence forwards and backwards, no node shared "
            "(list_history, list_step, list_observed). slist.h: the same for ctor/add/add_head/add_tail/del/del_head/mov/"
            "rot on any number of list objects; the invariant includes tail = last node (head when empty) and last->next = "
            "NULL (slist_history, slist_tail_is_last). que.c/que.h: two queue objects refine two abstract double-ended "
            "sequences of (address, value) elements for every history of push/pull both ends, insert/remove at any index, "
            "at for any signed index, fore/back, sort_fore/sort_back/push_sort, element swap (a_que_swap_), whole-queue "
            "swap, drop, setz, dtor+ctor, under EVERY allocator fault schedule: each step either reports failure (only "
            "possible when a request was refused; both sequences unchanged - also for drop/setz, which are proved all-or-nothing: "
            "que_drop_all_or_nothing, que_setz_all_or_nothing) or has the abstract effect; "
            "elements keep their (address, value) pair while enqueued; a node handed out is not enqueued; num_ = length; "
            "pool and rings disjoint (que_history, que_step, que_no_fault, que_invariant_facts). The three bodies as found "
            "in the pinned tree (a_slist_rot on one node, a_que_swap, a_que_swap_ on neighbours) are proved to break the "
            "invariant (..._as_found_refuted); /repo carries the repairs and the models follow /repo. "
            "Tie: the extracted models and the C compiled from the current tree (ASan+UBSan, counting a_alloc with fault "
            "schedule) execute the same generated histories (valid ones aimed at every case split, plus arbitrary-argument "
            "'wild' histories for the lists); after every operation the whole heap dump (lists) resp. result, num/siz/mem, "
            "ring forwards and backwards, pool, payloads and allocator request trace (queue) must be identical. "
            "Accessors, alias entry points and iteration macros (coq/C05/AccDefs.v, AccProofs.v; theorems que_end_accessors, "
            "que_end_accessors_empty, que_iteration, list_alias_entry_points, list_iteration, slist_alias_entry_points, "
            "slist_link_writes_one_field, slist_iteration): after every line both drivers print what a_que_fore_/a_que_back_ "
            "return on a non-empty queue (as the node whose block + sizeof(a_list) the pointer is) and what the foreach "
            "macros visit, and the C driver compares inside itself (token acc=ok|BAD:<function>:..) a_que_fore/back/at/num/"
            "siz, every A_QUE_* typed alias, all 8 a_list / 4 a_slist / 4 a_que iteration macros (also while the body removes "
            "the visited node), the *_entry macros, and an allocation ledger (live blocks = num_+cur_, pool arrays, the "
            "a_que_new structure released by a_que_die); containers are built through every construction entry point "
            "(a_list_ctor/init/dtor/A_LIST_INIT, a_slist_ctor/init/dtor/A_SLIST_INIT, a_que_ctor/dtor and a_que_new/die), "
            "every second queue operation goes through its alias macro. "
            "Translator ties, re-proved on every run against code regenerated from the current sources: (1) all 21 a_list_* and 11 "
            "a_slist_* functions as checked heap programs (tools/c2heap.py), proved EQUAL to the models for every heap and address "
            "(harness/C05/TieList.v); (2) 24 functions of que.c / que.h (tools/c2que.py: a_que_siz, num, ctor, new_, die_, fore_, back_, "
            "fore, back, at, push_fore, push_back, pull_fore, pull_back, insert, remove, swap_, sort_fore, sort_back, push_sort, drop, "
            "move_, swap, setz) over a CONCRETE queue state - the recycle pool as an array of cells with fill count cur_ and capacity "
            "mem_, grown by a_alloc - proved to SIMULATE the model QueDefs.v, whose pool is a list (harness/C05/TieQueR.v, TieQue.v, "
            "TieQue3.v): under the abstraction relation R (pool list = the first cur_ cells of the array, top first; cur_ <= mem_ = array "
            "length; same siz/num/mem, heap, payloads, fresh counter != 0, schedule, trace) the generated function and the model function "
            "either both succeed with R-related worlds and equal results, or both fault, or both run out of fuel - for all R-related "
            "states (no ring invariant assumed, null and dangling addresses included), all arguments, comparison callbacks and allocator "
            "schedules; tie_a_que_insert and tie_a_que_setz additionally assume the proved queue invariant QInv of the model state.",
    "note": "Trusted: Coq kernel; extraction (ExtrOcamlBasic only) and the two hand-written drivers; the hand-written models "
            "coq/C05/*Defs.v are tied to the C by differential testing and by the translators c2heap / c2que, which are trusted to read "
            "the C right (not verified translations; their output is not trusted about the model: every generated function is proved "
            "equal to / to simulate the model on every run); in the queue translator a_size / a_diff arithmetic is unbounded as in "
            "the model, `node + 1` (element pointer) is named by the node address, list primitives called by que.c are the model "
            "functions TieList.v ties them to, a_alloc is the model's request oracle, dtor is NULL; a_que_dtor (frees the pool bottom "
            "first, the model top first: equal heaps only up to map extensionality), a_que_new/a_que_die and the iteration macros stay "
            "with the correspondence run only; C semantics and "
            "compiler. Modelled, not verified: a_alloc as an oracle consuming one boolean per request (addresses are never "
            "reused in the model, the C driver names blocks in allocation order); num_/mem_/cur_ as unbounded naturals "
            "(cannot wrap: >= 17 bytes of address space per element); element payload = one integer per node; the "
            "comparison callback is a total function of the two payloads; dtor callbacks are NULL. The list theorems speak "
            "about histories the abstract machines accept (documented preconditions); outside them (overlapping or adjacent "
            "sections, nodes already on a ring) only model = C is checked. a_list_link/a_list_loop are modelled and compared "
            "but have no abstract step. The search oracle (classes DL/SL/QU in checks/C05.py) restates the Rocq "
            "specifications in Python. No axioms.",
    "technique": "Rocq proof (separation-style ring/chain invariants, refinement to abstract sequences by induction over "
                 "histories and fault schedules) + all 32 a_list_* / a_slist_* functions regenerated from the headers as checked heap "
                 "programs by a translator and proved equal to the model on every run + 24 functions of que.c/que.h regenerated over a "
                 "concrete pool array and proved to simulate the model under an abstraction relation on every run + extracted-model vs C correspondence under ASan/UBSan",
    "category": "proof",
}


class Pre(Exception):
    """the operation's documented precondition does not hold in the abstract state"""


class Bad(Exception):
    """the implementation's output violates the property"""


class BadFn(Bad):
    """... and the violation is pinned on one accessor / macro (key of the report)"""

    def __init__(self, fn, msg):
        Bad.__init__(self, msg)
        self.fn = fn


def parse_seq(s):
    """'[1,2]' -> [1, 2]; 'BROKEN' -> None; '?' entries -> -1"""
    if s == "BROKEN":
        return None
    s = s.strip("[]")
    return [int(x) if x != "?" else -1 for x in s.split(",")] if s else []


def extras(line):
    """the w= / acc= tokens of a canonical line"""
    d = {}
    for tok in line.split():
        if tok.startswith("w="):
            d["w"] = tok[2:]
        elif tok.startswith("acc="):
            d["acc"] = tok[4:]
    return d


def bad_token(line):
    """(function, token) when the driver's own accessor comparison failed on this line"""
    a = extras(line).get("acc", "ok")
    if a.startswith("BAD:"):
        return a[4:].split(":")[0], a
    return None


# ----------------------------------------------------------------------------------------------
# dlist: abstract machine over chains.  A closed chain is a ring (cyclic sequence), an open chain
# is a detached section whose inner links are intact and whose two outer links dangle.
# ----------------------------------------------------------------------------------------------
class DL:
    def __init__(self, n):
        self.n = n
        self.ch = [[True, [i]] for i in range(1, n + 1)]   # [closed?, ids]
        self.tags = []

    def find(self, x):
        for c in self.ch:
            if x in c[1]:
                return c
        raise Pre("unknown node")

    def closed_at(self, x):
        """the closed chain containing x, rotated so that x is first"""
        c = self.find(x)
        if not c[0]:
            raise Pre("node not in a ring")
        i = c[1].index(x)
        c[1] = c[1][i:] + c[1][:i]
        return c

    def single(self, x, other=None):
        c = self.find(x)
        if len(c[1]) != 1 or c is other:
            raise Pre("node is not detached")
        return c

    def present(self, hd, tl):
        """chain that reads hd ... tl when opened between tl and hd"""
        c = self.find(hd)
        if c[0]:
            c = self.closed_at(hd)
        if c[1][0] != hd or c[1][-1] != tl:
            raise Pre("not a whole chain")
        return c

    def section(self, hd, tl):
        c = self.closed_at(hd)
        if tl not in c[1]:
            raise Pre("section ends in another chain")
        k = c[1].index(tl) + 1
        return c, c[1][:k], c[1][k:]

    def szc(self, k):
        return "1" if k == 1 else "2" if k == 2 else "3+"

    def apply(self, op, a):
        t = op
        ch = self.ch
        if op in ("init", "ctor", "dtor"):
            c = self.single(a[0])
            c[0] = True
        elif op in ("add_next", "add_prev"):
            c = self.closed_at(a[0])
            s = self.single(a[1], c)
            ch.remove(s)
            t += ":ring" + self.szc(len(c[1]))
            if op == "add_next":
                c[1].insert(1, a[1])
            else:
                c[1].append(a[1])
        elif op in ("add_", "add_node"):
            h1, t1 = a[0], a[1]
            h2, t2 = (a[2], a[3]) if op == "add_" else (a[2], a[2])
            c1 = self.present(h1, t1)
            c2 = self.present(h2, t2)
            if c1 is c2:
                raise Pre("same chain")
            t += ":%s+%s" % ("ring" if c1[0] else "open", "ring" if c2[0] else "open")
            ch.remove(c2)
            c1[0] = True
            c1[1] = c1[1] + c2[1]
        elif op in ("del_", "del_node", "del_next", "del_prev"):
            if op == "del_":
                hd, tl = a
            elif op == "del_node":
                hd = tl = a[0]
            else:
                c = self.closed_at(a[0])
                hd = tl = c[1][1 % len(c[1])] if op == "del_next" else c[1][-1]
            c, s, rest = self.section(hd, tl)
            t += ":whole" if not rest else ":sec" + self.szc(len(s))
            if rest:
                c[1] = rest
                ch.append([False, s])
        elif op in ("set_", "set_node"):
            h1, t1, h2, t2 = a if op == "set_" else (a[0], a[0], a[1], a[1])
            c, s, rest = self.section(h1, t1)
            if not rest:
                raise Pre("section is the whole ring")
            c2 = self.present(h2, t2)
            if c2 is c:
                raise Pre("same chain")
            t += ":%s" % ("ring" if c2[0] else "open")
            ch.remove(c2)
            c[1] = c2[1] + rest
            ch.append([False, s])
        elif op in ("mov_next", "mov_prev"):
            c = self.closed_at(a[0])
            r = self.closed_at(a[1])
            if r is c:
                raise Pre("same ring")
            ys = r[1][1:]
            t += ":empty" if not ys else ":src" + self.szc(len(ys))
            if not ys:
                ys = [a[1]]
                ch.remove(r)
            else:
                r[0] = False
                r[1] = [a[1]]
            c[1] = [a[0]] + ys + c[1][1:] if op == "mov_next" else c[1] + ys
        elif op == "rot_next":
            c = self.closed_at(a[0])
            t += ":ring" + self.szc(len(c[1]))
            if len(c[1]) > 1:
                c[1] = [c[1][0], c[1][-1]] + c[1][1:-1]
        elif op == "rot_prev":
            c = self.closed_at(a[0])
            t += ":ring" + self.szc(len(c[1]))
            if len(c[1]) > 1:
                c[1] = [c[1][0]] + c[1][2:] + [c[1][1]]
        elif op in ("swap_", "swap_node"):
            h1, t1, h2, t2 = a if op == "swap_" else (a[0], a[0], a[1], a[1])
            c1, s1, r1 = self.section(h1, t1)
            if h2 in s1 or t2 in s1:
                raise Pre("sections overlap")
            if h2 in r1:
                if t2 not in r1:
                    raise Pre("bad section")
                i, j = r1.index(h2), r1.index(t2)
                if j < i:
                    raise Pre("section wraps over the other one")
                aa, s2, bb = r1[:i], r1[i:j + 1], r1[j + 1:]
                if not aa or not bb:
                    raise Pre("adjacent sections")
                t += ":same-ring"
                c1[1] = s2 + aa + s1 + bb
            else:
                c2, s2, r2 = self.section(h2, t2)
                if not r1 or not r2:
                    raise Pre("section is a whole ring")
                t += ":two-rings"
                c1[1] = s2 + r1
                c2[1] = s1 + r2
        else:
            raise Pre("operation outside the abstract machine")
        self.tags.append(t)

    def check(self, heap, w=None):
        """heap: {id: (next, prev)} as dumped by the implementation; w: the w= token (what the
        a_list_foreach_next / _prev macros visited from node c)"""
        for closed, l in self.ch:
            k = len(l)
            for i in range(k if closed else k - 1):
                x, y = l[i], l[(i + 1) % k]
                if heap[x][0] != y:
                    raise Bad("node %d: next is %s, the sequence %s says %d" % (x, heap[x][0], l, y))
                if heap[y][1] != x:
                    raise Bad("node %d: prev is %s, the sequence %s says %d (next/prev inconsistent)"
                              % (y, heap[y][1], l, x))
        if w and w != "-":
            c, rest = w.split(":", 1)
            c = int(c)
            fwd, bwd = [parse_seq(x) for x in rest.split("/")]
            ch = self.find(c)
            if ch[0]:
                i = ch[1].index(c)
                ring = ch[1][i:] + ch[1][:i]
                if fwd != ring[1:]:
                    raise BadFn("a_list_foreach_next", "a_list_foreach_next from node %d visited %s, the ring %s says %s"
                                % (c, fwd, ring, ring[1:]))
                if bwd != ring[1:][::-1]:
                    raise BadFn("a_list_foreach_prev", "a_list_foreach_prev from node %d visited %s, the ring %s says %s"
                                % (c, bwd, ring, ring[1:][::-1]))


def parse_l(line):
    heap = {}
    for tok in line.split()[1:]:
        if "=" in tok:
            continue          # w= / acc=
        k, v = tok.split(":")
        nx, pv = v.split(",")
        heap[int(k)] = (int(nx) if nx != "?" else None, int(pv) if pv != "?" else None)
    return heap


def gen_dlist(rng, nops, n):
    """a history that satisfies every documented precondition"""
    m = DL(n)
    out = ["L %d" % n]
    ops = ["init", "add_next", "add_prev", "add_", "add_node", "del_", "del_node", "del_next", "del_prev",
           "set_", "set_node", "mov_next", "mov_prev", "rot_next", "rot_prev", "swap_", "swap_node"]
    w = [2, 8, 8, 4, 3, 5, 5, 3, 3, 4, 3, 4, 4, 4, 4, 8, 6]
    tries = 0
    while len(out) - 1 < nops and tries < nops * 60:
        tries += 1
        op = rng.choices(ops, w)[0]
        closed = [c for c in m.ch if c[0]]
        opened = [c for c in m.ch if not c[0]]
        singles = [c for c in m.ch if len(c[1]) == 1]
        try:
            if op == "init":
                a = [rng.choice(singles)[1][0]]
                op = rng.choice(["init", "ctor", "dtor"])      # three entry points, one body
            elif op in ("add_next", "add_prev"):
                a = [rng.choice(rng.choice(closed)[1]), rng.choice(singles)[1][0]]
            elif op in ("add_", "add_node"):
                c1 = rng.choice(m.ch)
                h1 = rng.choice(c1[1]) if c1[0] else c1[1][0]
                if c1[0]:
                    c1 = m.closed_at(h1)
                c2 = rng.choice(singles if op == "add_node" else m.ch)
                h2 = rng.choice(c2[1]) if c2[0] else c2[1][0]
                if c2[0]:
                    c2 = m.closed_at(h2)
                a = [h1, c1[1][-1], h2] + ([c2[1][-1]] if op == "add_" else [])
            elif op == "del_":
                c = rng.choice(closed)
                hd = rng.choice(c[1])
                c = m.closed_at(hd)
                a = [hd, c[1][rng.randrange(len(c[1]))]]
            elif op in ("del_node", "del_next", "del_prev", "rot_next", "rot_prev"):
                a = [rng.choice(rng.choice(closed)[1])]
            elif op in ("set_", "set_node"):
                c = rng.choice([c for c in closed if len(c[1]) > 1])
                hd = rng.choice(c[1])
                c = m.closed_at(hd)
                tl = hd if op == "set_node" else c[1][rng.randrange(len(c[1]) - 1)]
                c2 = rng.choice([x for x in (singles if op == "set_node" else m.ch) if x is not c])
                h2 = rng.choice(c2[1]) if c2[0] else c2[1][0]
                if c2[0]:
                    c2 = m.closed_at(h2)
                a = [hd, tl, h2, c2[1][-1]] if op == "set_" else [hd, h2]
            elif op in ("mov_next", "mov_prev"):
                c1, c2 = rng.sample(closed, 2)
                a = [rng.choice(c1[1]), rng.choice(c2[1])]
            else:  # swap_, swap_node
                c = rng.choice([c for c in closed if len(c[1]) > 1])
                hd = rng.choice(c[1])
                c = m.closed_at(hd)
                k = 1 if op == "swap_node" else rng.randint(1, max(1, len(c[1]) - 1))
                s1 = c[1][:k]
                if rng.random() < 0.5 and len(c[1]) - k >= 3:
                    rest = c[1][k:]
                    i = rng.randrange(1, len(rest) - 1)
                    j = i if op == "swap_node" else rng.randrange(i, len(rest) - 1)
                    a = [s1[0], s1[-1], rest[i], rest[j]]
                else:
                    c2 = rng.choice([x for x in closed if x is not c and len(x[1]) > 1])
                    h2 = rng.choice(c2[1])
                    c2 = m.closed_at(h2)
                    j = 0 if op == "swap_node" else rng.randrange(len(c2[1]) - 1)
                    a = [s1[0], s1[-1], h2, c2[1][j]]
                if op == "swap_node":
                    a = [a[0], a[2]]
            m.apply(op, a)
        except (Pre, IndexError, ValueError):
            continue
        out.append(op + " " + " ".join(map(str, a)))
    return out, m.tags


LARITY = {"init": 1, "ctor": 1, "dtor": 1, "link": 2, "loop": 2, "add_": 4, "add_node": 3, "add_next": 2, "add_prev": 2, "del_": 2,
          "del_node": 1, "del_next": 1, "del_prev": 1, "set_": 4, "set_node": 2, "mov_next": 2, "mov_prev": 2,
          "rot_next": 1, "rot_prev": 1, "swap_": 4, "swap_node": 2}


def gen_dlist_wild(rng, nops, n):
    """any operation on any nodes (memory safe: every pointer always designates one of the n nodes);
    no abstract meaning, correspondence only - this is where adjacent/overlapping sections are hit"""
    out = ["L %d" % n]
    names = list(LARITY)
    for _ in range(nops):
        op = rng.choice(names)
        out.append(op + " " + " ".join(str(rng.randint(1, n)) for _ in range(LARITY[op])))
    return out


# ----------------------------------------------------------------------------------------------
# slist: two list objects 1, 2; nodes 3..n+2
# ----------------------------------------------------------------------------------------------
class SL:
    def __init__(self, n):
        self.n = n
        self.l = {1: [], 2: []}      # None = stale (its nodes were moved away, needs ctor)
        self.tags = []

    def used(self):
        return set(x for v in self.l.values() if v for x in v)

    def lst(self, l):
        if l not in self.l or self.l[l] is None:
            raise Pre("list is stale")
        return self.l[l]

    def apply(self, op, a):
        t = op
        if op in ("ctor", "init", "dtor"):
            if a[0] not in self.l:
                raise Pre("not a list")
            self.l[a[0]] = []
        elif op == "link":
            # a bare a_slist_link has an abstract meaning only when it rewrites the link that is there
            owner = [l for l, xs in self.l.items() if xs is not None and (a[0] == l or a[0] in xs)]
            if len(owner) != 1:
                raise Pre("head is on no list")
            seq = [owner[0]] + self.l[owner[0]]
            i = seq.index(a[0])
            if i + 1 >= len(seq) or seq[i + 1] != a[1]:
                raise Pre("not the successor")
        elif op in ("add", "add_head", "add_tail"):
            xs = self.lst(a[0])
            node = a[-1]
            if node <= 2 or node in self.used():
                raise Pre("node already on a list")
            if op == "add":
                if a[1] != a[0] and a[1] not in xs:
                    raise Pre("prev not on the list")
                i = 0 if a[1] == a[0] else xs.index(a[1]) + 1
            else:
                i = 0 if op == "add_head" else len(xs)
            t += ":empty" if not xs else ":last" if i == len(xs) else ":inner"
            xs.insert(i, node)
        elif op in ("del", "del_head"):
            xs = self.lst(a[0])
            prev = a[1] if op == "del" else a[0]
            if prev != a[0] and prev not in xs:
                raise Pre("prev not on the list")
            i = 0 if prev == a[0] else xs.index(prev) + 1
            t += ":none" if i >= len(xs) else ":last" if i == len(xs) - 1 else ":inner"
            if i < len(xs):
                del xs[i]
        elif op == "mov":
            xs = self.lst(a[0])
            if a[1] == a[0]:
                raise Pre("same list")
            ys = self.lst(a[1])
            if a[2] != a[1] and a[2] not in ys:
                raise Pre("position not on the target")
            i = 0 if a[2] == a[1] else ys.index(a[2]) + 1
            t += ":empty-src" if not xs else ":at-last" if i == len(ys) else ":at-inner"
            if xs:
                ys[i:i] = xs
                self.l[a[0]] = None
        elif op == "rot":
            xs = self.lst(a[0])
            t += ":len" + ("0" if not xs else "1" if len(xs) == 1 else "2+")
            if len(xs) > 1:
                xs.append(xs.pop(0))
        else:
            raise Pre("unknown op")
        self.tags.append(t)

    def check(self, nxt, tail, w=None):
        ws = [parse_seq(x) for x in w.split("/")] if w else None
        for l, xs in self.l.items():
            if xs is None:
                continue
            seq = [l] + xs
            for i, x in enumerate(seq):
                want = seq[i + 1] if i + 1 < len(seq) else 0
                if nxt.get(x) != want:
                    raise Bad("slist %d: next of %d is %s, the sequence %s says %d" % (l, x, nxt.get(x), xs, want))
            if tail[l] != seq[-1]:
                raise Bad("slist %d: tail is %s but the last node of %s is %d" % (l, tail[l], xs, seq[-1]))
            if ws is not None and ws[l - 1] != xs:
                raise BadFn("a_slist_foreach", "a_slist_foreach on list %d visited %s, the sequence is %s" % (l, ws[l - 1], xs))


def parse_s(line):
    nxt, tail = {}, {}
    for tok in line.split()[1:]:
        if "=" in tok:
            continue          # w= / acc=
        k, v = tok.split(":")
        k = int(k)
        if "," in v:
            a, b = v.split(",")
            nxt[k] = int(a) if a != "?" else None
            tail[k] = int(b) if b != "?" else None
        else:
            nxt[k] = int(v) if v != "?" else None
    return nxt, tail


def gen_slist(rng, nops, n):
    m = SL(n)
    out = ["S %d" % n]
    ops = ["ctor", "add", "add_head", "add_tail", "del", "del_head", "mov", "rot", "link"]
    w = [1, 6, 3, 3, 5, 3, 2, 4, 2]
    ctors = ["ctor", "init", "dtor"]          # three entry points, one body
    tries = 0
    while len(out) - 1 < nops and tries < nops * 40:
        tries += 1
        op = rng.choices(ops, w)[0]
        l = rng.choice([1, 2])
        try:
            if m.l[l] is None:
                op, a = rng.choice(ctors), [l]
            elif op == "ctor":
                op, a = rng.choice(ctors), [l]
            elif op in ("del_head", "rot"):
                a = [l]
            elif op == "link":
                seq = [l] + m.lst(l)
                i = rng.randrange(len(seq) - 1)
                a = [seq[i], seq[i + 1]]
            elif op in ("add", "add_head", "add_tail"):
                free = [x for x in range(3, n + 3) if x not in m.used()]
                node = rng.choice(free)
                xs = m.lst(l)
                # aim at the boundaries: after the head, after the last node, inside
                prev = rng.choice([l] + xs[-1:] + xs)
                a = [l, prev, node] if op == "add" else [l, node]
            elif op == "del":
                xs = m.lst(l)
                a = [l, rng.choice([l] + xs[-2:] + xs)]
            else:
                ys = m.lst(3 - l)
                a = [l, 3 - l, rng.choice([3 - l] + ys[-1:] + ys)]
            m.apply(op, a)
        except (Pre, IndexError, ValueError):
            continue
        out.append(op + " " + " ".join(map(str, a)))
    return out, m.tags


def gen_slist_wild(rng, nops, n):
    out = ["S %d" % n]
    for _ in range(nops):
        op = rng.choice(["ctor", "init", "dtor", "link", "add", "add_head", "add_tail", "del", "del_head", "mov", "rot"])
        l = rng.choice([1, 2])
        anyn = lambda: rng.randint(1, n + 2)
        node = lambda: rng.randint(3, n + 2)
        a = {"ctor": [l], "init": [l], "dtor": [l], "link": [anyn(), anyn()], "add": [l, anyn(), node()], "add_head": [l, node()], "add_tail": [l, node()],
             "del": [l, anyn()], "del_head": [l], "mov": [l, rng.choice([1, 2]), anyn()], "rot": [l]}[op]
        out.append(op + " " + " ".join(map(str, a)))
    return out


# ----------------------------------------------------------------------------------------------
# queue: abstract double-ended sequences of element addresses + value per address
# ----------------------------------------------------------------------------------------------
def cmpv(asc, a, b):
    r = (a > b) - (a < b)
    return r if asc else -r


class QU:
    """predict=True : generator mode, results are computed (pool modelled as the LIFO it is)
       predict=False: oracle mode, results are taken from the implementation and checked against
                      the abstract sequences only (no assumption about which free node is handed out)"""

    def __init__(self, predict):
        self.predict = predict
        self.xs = {0: [], 1: []}
        self.val = {}
        self.siz = {0: 8, 1: 8}
        self.pool = {0: [], 1: []}     # predict mode only (top last)
        self.mem = {0: 0, 1: 0}
        self.fresh = 3
        self.sched = []
        self.tags = []
        self.failed_alloc = False

    # -- allocator answers (both modes follow the schedule to know whether a failure is legitimate)
    def ans(self):
        return self.sched.pop(0) if self.sched else 1

    def enq(self):
        return set(self.xs[0]) | set(self.xs[1])

    def new_node(self, s, res):
        """returns the node or 0; oracle mode: res is what the implementation returned"""
        if self.predict:
            if self.pool[s]:
                self.tags.append("new:pool")
                return self.pool[s].pop()
            if not self.ans():
                self.tags.append("new:fault")
                return 0
            self.tags.append("new:fresh")
            self.fresh += 1
            return self.fresh - 1
        if res == 0:
            # failure is only legitimate when an allocation was refused
            if not self.failed_alloc:
                raise Bad("push returned NULL although no allocation was refused")
            return 0
        if res in self.enq():
            raise Bad("node %d handed out while still enqueued" % res)
        if res < 3:
            raise Bad("returned pointer is not an element node")
        return res

    def take(self, s, i, res):
        """remove position i of queue s; returns the expected result"""
        xs = self.xs[s]
        node = xs[i]
        if self.predict:
            if self.mem[s] <= len(self.pool[s]):
                if not self.ans():
                    self.tags.append("die:fault")
                    return 0
                m = self.mem[s]
                m += (m >> 1) + 1
                self.mem[s] = (m + 7) // 8 * 8
                self.tags.append("die:grow")
            else:
                self.tags.append("die:room")
            self.pool[s].append(node)
            del xs[i]
            return node
        if res == 0:
            if not self.failed_alloc:
                raise Bad("removal returned NULL although the queue holds %d elements and no allocation was refused" % len(xs))
            return 0
        if res != node:
            raise Bad("removal returned node %s, the sequence %s says %d" % (res, xs, node))
        del xs[i]
        return node

    def step(self, op, t, res=None, failed_alloc=False):
        """t: argument tokens.  Returns the expected result (predict) / checks res (oracle)."""
        self.failed_alloc = failed_alloc
        s = 1 if t and t[0] in ("1", "B") else 0
        xs = self.xs[s]
        tag = op
        r = 0
        if op == "sched":
            self.sched = [int(x) for x in t]
        elif op == "reset":
            self.xs[s] = []
            self.pool[s] = []
            self.mem[s] = 0
            self.siz[s] = int(t[1]) or 1
        elif op in ("push_fore", "push_back"):
            r = self.new_node(s, res)
            if r:
                tag += ":empty" if not xs else ""
                xs.insert(0 if op == "push_fore" else len(xs), r)
                self.val[r] = int(t[1])
        elif op in ("pull_fore", "pull_back"):
            if not xs:
                tag += ":empty"
                if res:
                    raise Bad("pull on an empty queue returned %s" % res)
            else:
                tag += ":last" if len(xs) == 1 else ""
                r = self.take(s, 0 if op == "pull_fore" else len(xs) - 1, res)
        elif op == "insert":
            idx = int(t[1])
            r = self.new_node(s, res)
            tag += ":inside" if idx < len(xs) else ":at-end" if idx == len(xs) else ":beyond"
            if r:
                xs.insert(min(idx, len(xs)), r)
                self.val[r] = int(t[2])
        elif op == "remove":
            idx = int(t[1])
            tag += ":inside" if idx < len(xs) else ":beyond"
            if idx < len(xs):
                r = self.take(s, idx, res)
            elif xs:
                r = self.take(s, len(xs) - 1, res)
            else:
                tag += "-empty"
                if res:
                    raise Bad("remove on an empty queue returned %s" % res)
        elif op == "at":
            idx = int(t[1])
            if 0 <= idx < len(xs):
                r = xs[idx]
                tag += ":front-hit"
            elif idx < 0 and -idx <= len(xs):
                r = xs[len(xs) + idx]
                tag += ":back-hit"
            else:
                tag += ":miss" + ("+" if idx >= 0 else "-")
            if not self.predict and res != r:
                raise Bad("at(%d) returned %s, the sequence %s says %s" % (idx, res, xs, r))
        elif op in ("fore", "back"):
            r = (xs[0] if op == "fore" else xs[-1]) if xs else 0
            if not self.predict and res != r:
                raise Bad("%s returned %s, the sequence %s says %s" % (op, res, xs, r))
        elif op == "sort_fore":
            asc = t[1] == "1"
            if len(xs) > 1:
                x, rest = xs[0], xs[1:]
                k = 0
                while k < len(rest) and cmpv(asc, self.val[x], self.val[rest[k]]) > 0:
                    k += 1
                tag += ":stay" if k == 0 else ":to-end" if k == len(rest) else ":move"
                xs[:] = rest[:k] + [x] + rest[k:]
            else:
                tag += ":short"
        elif op == "sort_back":
            asc = t[1] == "1"
            if len(xs) > 1:
                x, rest = xs[-1], xs[:-1]
                k = len(rest)
                while k > 0 and cmpv(asc, self.val[rest[k - 1]], self.val[x]) > 0:
                    k -= 1
                tag += ":stay" if k == len(rest) else ":to-front" if k == 0 else ":move"
                xs[:] = rest[:k] + [x] + rest[k:]
            else:
                tag += ":short"
        elif op == "push_sort":
            asc, key = t[1] == "1", int(t[2])
            r = self.new_node(s, res)
            if r:
                k = len(xs)
                while k > 0 and cmpv(asc, self.val[xs[k - 1]], key) > 0:
                    k -= 1
                tag += ":empty" if not xs else ":at-end" if k == len(xs) else ":to-front" if k == 0 else ":move"
                xs.insert(k, r)
                self.val[r] = key
        elif op == "swap_e":
            l, rr = int(t[0]), int(t[1])
            pos = {}
            for q in (0, 1):
                for i, x in enumerate(self.xs[q]):
                    pos[x] = (q, i)
            if l not in pos or rr not in pos:
                raise Pre("swap of something that is not enqueued")
            (ql, il), (qr, ir) = pos[l], pos[rr]
            tag += ":same" if l == rr else ":two-queues" if ql != qr else \
                ":adjacent-lr" if ir == il + 1 else ":adjacent-rl" if il == ir + 1 else ":apart"
            self.xs[ql][il], self.xs[qr][ir] = rr, l
        elif op == "swap":
            s2 = 1 if t[1] in ("1", "B") else 0
            tag += ":self" if s == s2 else ":%s-%s" % ("empty" if not self.xs[s] else "full",
                                                        "empty" if not self.xs[s2] else "full")
            if s != s2:
                for d in (self.xs, self.siz, self.pool, self.mem):
                    d[0], d[1] = d[1], d[0]
        elif op in ("drop", "setz"):
            # a_que_drop reserves the pool array for every node before it moves the first one (one
            # request at most), so it is all-or-nothing; a_que_setz releases the recycled nodes when the
            # element size grows (no request), so it can only fail in its drop
            if self.predict:
                need = len(self.pool[s]) + len(xs)
                if need > self.mem[s]:
                    if not self.ans():
                        r = 4
                        tag += ":fault"
                    else:
                        self.mem[s] = (need + 7) // 8 * 8
                        tag += ":reserve"
                if r == 0:
                    self.pool[s].extend(xs)
                    xs[:] = []
                    if op == "setz":
                        z = int(t[1]) or 1
                        if z > self.siz[s]:
                            tag += ":grow"
                            self.pool[s] = []
                        self.siz[s] = z
            else:
                r = res
                if res == 0:
                    xs[:] = []
                    if op == "setz":
                        self.siz[s] = int(t[1]) or 1
                elif not failed_alloc:
                    raise Bad("%s failed (%s) although no allocation was refused" % (op, res))
                # a failed drop/setz must leave the contents as they were: nothing is changed here,
                # check() compares the dumped ring with the unchanged abstract sequence
        else:
            raise Pre("unknown op")
        self.tags.append(tag)
        return r

    def check(self, st):
        """st: parsed dump of the implementation"""
        for s in (0, 1):
            d = st[s]
            xs = self.xs[s]
            if d["f"] is None or d["b"] is None:
                raise Bad("queue %d: ring is broken (walk from the head does not come back)" % s)
            if d["f"] != xs:
                raise Bad("queue %d: forward walk %s, abstract sequence %s" % (s, d["f"], xs))
            if d["b"] != xs[::-1]:
                raise Bad("queue %d: backward walk %s, abstract sequence reversed %s" % (s, d["b"], xs[::-1]))
            if d["n"] != len(xs):
                raise Bad("queue %d: num %d, abstract length %d" % (s, d["n"], len(xs)))
            if d["z"] != self.siz[s]:
                raise Bad("queue %d: element size %d, expected %d" % (s, d["z"], self.siz[s]))
            if "e" in d:
                want = (str(xs[0]), str(xs[-1])) if xs else ("-", "-")
                for k, fn in ((0, "a_que_fore_"), (1, "a_que_back_")):
                    if d["e"][k] != want[k]:
                        raise BadFn(fn, "queue %d: %s returned element %s, the sequence %s says %s (returned pointer must be "
                                        "the node's block + sizeof(a_list); '-' = not called on an empty queue)"
                                    % (s, fn, d["e"][k], xs, want[k]))
            if len(set(d["p"])) != len(d["p"]):
                raise Bad("queue %d: pool holds a node twice %s" % (s, d["p"]))
        allp = st[0]["p"] + st[1]["p"]
        both = set(allp) & self.enq()
        if both or len(set(allp)) != len(allp) or (set(self.xs[0]) & set(self.xs[1])):
            raise Bad("a recycled node is also enqueued / held twice: %s" % sorted(both))
        for x, v in st["v"].items():
            if self.val.get(x) != v:
                raise Bad("element %d holds %s, the value written through its pointer was %s" % (x, v, self.val.get(x)))


def parse_q(line):
    """'r=3 A:n=..,z=..,m=..,f=[..],b=[..],p=[..] B:... v=[..] t=[..]' -> (res, state)"""
    toks = line.split()
    res = int(toks[0][2:]) if toks[0].startswith("r=") else 0
    st = {}

    def lst(s):
        if s == "BROKEN":
            return None
        s = s.strip("[]")
        return [int(x) if x != "?" else -1 for x in s.split(",")] if s else []
    for i, tok in enumerate(toks[1:3]):
        body = tok[2:]
        d = {}
        # split on commas that are not inside brackets
        parts, depth, cur = [], 0, ""
        for ch in body:
            if ch == "[":
                depth += 1
            if ch == "]":
                depth -= 1
            if ch == "," and depth == 0:
                parts.append(cur)
                cur = ""
            else:
                cur += ch
        parts.append(cur)
        for p in parts:
            k, v = p.split("=")
            d[k] = lst(v) if k in "fbp" else tuple(v.split("/")) if k == "e" else int(v)
        st[i] = d
    v = toks[3][2:].strip("[]")
    st["v"] = {int(a.split(":")[0]): int(a.split(":")[1]) for a in v.split(",")} if v else {}
    tr = toks[4][2:].strip("[]")
    st["t"] = tr.split(",") if tr else []
    return res, st


def gen_queue(rng, nops, faults):
    m = QU(True)
    out = ["Q"]
    big = rng.random() < 0.15
    target = rng.choice([3, 6, 12]) if not big else 40
    mode = rng.choice(["mixed", "mixed", "sorted", "two"])
    while len(out) - 1 < nops:
        s = rng.choice([0, 0, 1]) if mode != "two" else rng.choice([0, 1])
        xs = m.xs[s]
        n = len(xs)
        grow = n < target
        pick = rng.random()
        v = rng.randint(0, 9)
        if faults and rng.random() < 0.06:
            k = rng.randint(0, 3)
            line = "sched " + " ".join(["1"] * k + ["0"] + (["0"] * rng.randint(0, 2) if rng.random() < 0.3 else []))
        elif pick < 0.03:
            line = "reset %d %d" % (s, rng.choice([0, 1, 8, 24]))
        elif pick < (0.30 if grow else 0.12):
            line = "%s %d %d" % (rng.choice(["push_fore", "push_back"]), s, v)
        elif pick < (0.36 if grow else 0.30):
            line = "%s %d" % (rng.choice(["pull_fore", "pull_back"]), s)
        elif pick < 0.46:
            idx = rng.choice([0, 1, max(n - 1, 0), n, n + 1, U64 - 1, 2 ** 63, rng.randint(0, n + 2), rng.randrange(U64)])
            line = "insert %d %d %d" % (s, idx, v)
        elif pick < 0.54:
            idx = rng.choice([0, 1, max(n - 1, 0), n, n + 1, U64 - 1, 2 ** 63, rng.randint(0, n + 2), rng.randrange(U64)])
            line = "remove %d %d" % (s, idx)
        elif pick < 0.64:
            idx = rng.choice([0, n - 1, n, n + 1, -1, -n, -n - 1, -n + 1, -2 ** 63, 2 ** 63 - 1, rng.randint(-n - 2, n + 2)])
            line = "at %d %d" % (s, idx)
        elif pick < 0.67:
            line = "%s %d" % (rng.choice(["fore", "back"]), s)
        elif pick < 0.80:
            asc = rng.choice([0, 1]) if mode != "sorted" else 1
            k = rng.random()
            if mode == "sorted" and k < 0.7:
                # the documented idiom: push then sort
                if k < 0.25:
                    out.append("push_fore %d %d" % (s, v))
                    m.step("push_fore", [str(s), str(v)])
                    line = "sort_fore %d %d" % (s, asc)
                elif k < 0.5:
                    out.append("push_back %d %d" % (s, v))
                    m.step("push_back", [str(s), str(v)])
                    line = "sort_back %d %d" % (s, asc)
                else:
                    line = "push_sort %d %d %d" % (s, asc, v)
            else:
                line = rng.choice(["sort_fore %d %d" % (s, asc), "sort_back %d %d" % (s, asc),
                                   "push_sort %d %d %d" % (s, asc, v)])
        elif pick < 0.90:
            allx = m.xs[0] + m.xs[1]
            if not allx:
                continue
            k = rng.random()
            if k < 0.45 and n >= 2:
                i = rng.randrange(n - 1)
                l, r = (xs[i], xs[i + 1]) if rng.random() < 0.5 else (xs[i + 1], xs[i])   # adjacent, both orders
            elif k < 0.55 and n >= 2:
                l, r = (xs[0], xs[-1]) if rng.random() < 0.5 else (xs[-1], xs[0])         # neighbours of the sentinel
            elif k < 0.62:
                l = r = rng.choice(allx)
            elif k < 0.70 and m.xs[0] and m.xs[1] and m.siz[0] == m.siz[1]:
                l, r = rng.choice(m.xs[0]), rng.choice(m.xs[1])
                if rng.random() < 0.5:
                    l, r = r, l
            elif n >= 1:
                l, r = rng.choice(xs), rng.choice(xs)
            else:
                continue
            line = "swap_e %d %d" % (l, r)
        elif pick < 0.94:
            line = "swap %d %d" % ((s, 1 - s) if rng.random() < 0.9 else (s, s))
        elif pick < 0.97:
            line = "drop %d" % s
        else:
            line = "setz %d %d" % (s, rng.choice([0, 1, 4, 8, 12, 24, 40]))
        if faults and line.split()[0] in ("drop", "setz") and rng.random() < 0.6:
            # aim at the all-or-nothing boundary: refuse the first / second request of this very call
            pre = "sched " + " ".join(["1"] * rng.choice([0, 0, 1]) + ["0"])
            m.step("sched", pre.split()[1:])
            out.append(pre)
        t = line.split()
        try:
            m.step(t[0], t[1:])
        except Pre:
            continue
        out.append(line)
    return out, m.tags


def gen_queue_dropfault(rng):
    """aimed at the all-or-nothing boundary of a_que_drop / a_que_setz: some nodes already pooled, a
    pool array that has room for a few more but not for all, and the next allocator request refused"""
    m = QU(True)
    out = ["Q"]

    def emit(line):
        t = line.split()
        m.step(t[0], t[1:])
        out.append(line)
    s = rng.choice([0, 1])
    k = rng.choice([2, 3, 5, 8, 9, 10, 12, 17, 20])
    for i in range(k):
        emit("%s %d %d" % (rng.choice(["push_back", "push_fore"]), s, rng.randint(0, 9)))
    for _ in range(rng.randint(1, k - 1)):
        emit("%s %d" % (rng.choice(["pull_fore", "pull_back"]), s))
    for _ in range(rng.choice([0, 0, 1, 3, 9])):
        emit("push_back %d %d" % (s, rng.randint(0, 9)))
    emit("sched " + " ".join(["1"] * rng.choice([0, 0, 0, 1]) + ["0"]))
    emit(rng.choice(["drop %d" % s, "setz %d %d" % (s, rng.choice([4, 8, 24]))]))
    emit("at %d 0" % s)
    emit("push_back %d 5" % s)
    emit("pull_fore %d" % s)
    emit("drop %d" % s)
    return out, m.tags


# ----------------------------------------------------------------------------------------------
# running
# ----------------------------------------------------------------------------------------------
def split_histories(lines):
    hs = []
    for ln in lines:
        if ln.split()[:1] and ln.split()[0] in ("L", "S", "Q"):
            hs.append([ln])
        elif hs:
            hs[-1].append(ln)
    return hs


def run_bin(binp, text, flush=False, timeout=900):
    env = {"ASAN_OPTIONS": "detect_leaks=0:abort_on_error=0", "UBSAN_OPTIONS": "print_stacktrace=1"}
    if flush:
        env["C05_FLUSH"] = "1"
    rc, out, err = vlib.sh2([str(binp)], stdin=text, env=env, timeout=timeout)
    return rc, out.splitlines(), err


PRIM_FN = {("L", "link"): "a_list_link", ("L", "loop"): "a_list_loop", ("L", "init"): "a_list_init",
           ("L", "ctor"): "a_list_ctor", ("L", "dtor"): "a_list_dtor", ("S", "link"): "a_slist_link",
           ("S", "ctor"): "a_slist_ctor", ("S", "init"): "a_slist_init", ("S", "dtor"): "a_slist_dtor"}


def prim_check(kind, prev, t, out):
    """The primitives (link, loop, the ctor/init/dtor entry points) are specified by the fields they
    write: the dump after the call must be the dump before it with exactly those fields changed.  Needs
    no abstract state, so it also judges the arbitrary-argument histories.  Returns None or (message,
    function)."""
    fn = PRIM_FN.get((kind, t[0]))
    if fn is None or not prev.startswith(("L", "S", "ok")) or not out.startswith("ok"):
        return None
    try:
        a = [int(x) for x in t[1:]]
        if kind == "L":
            want = dict(parse_l(prev))
            got = parse_l(out)
            if t[0] == "link":
                want[a[0]] = (a[1], want[a[0]][1])
                want[a[1]] = (want[a[1]][0], a[0])
            elif t[0] == "loop":
                want[a[0]] = (want[a[0]][0], a[1])
                want[a[1]] = (a[0], want[a[1]][1])
            else:
                want[a[0]] = (a[0], a[0])
        else:
            nxt, tail = parse_s(prev)
            want = (dict(nxt), dict(tail))
            got = parse_s(out)
            if t[0] == "link":
                want[0][a[0]] = a[1]
            else:
                want[0][a[0]] = 0
                want[1][a[0]] = a[0]
        if got != want:
            return ("%s(%s): the fields after the call are %s, the fields before it with the write(s) of %s applied are %s"
                    % (fn, ",".join(t[1:]), got, fn, want), fn)
    except (ValueError, IndexError, KeyError):
        return None
    return None


def oracle_history(hist, c_lines, abstract=True):
    """Evaluate the property on the implementation's output for one history (its lines and the
    implementation's output lines).  Returns None or (op index, message, function or None).
    abstract=False (arbitrary-argument histories, no abstract meaning): only the checks that need no
    abstract state - the driver's own accessor verdict (acc=BAD), the primitives' frame, missing output."""
    kind = hist[0].split()[0]
    try:
        if kind == "L":
            m = DL(int(hist[0].split()[1]))
        elif kind == "S":
            m = SL(int(hist[0].split()[1]))
        else:
            m = QU(False)
    except (ValueError, IndexError):
        return None
    live = abstract           # the abstract machine still follows the history
    for i in range(0, len(hist)):
        if i >= len(c_lines):
            return (i, "no output for this operation (the implementation stopped: crash, sanitizer report or endless loop)", None)
        t = hist[i].split()
        out = c_lines[i]
        b = bad_token(out)
        if b:
            return (i, "%s: accessor / macro / ledger comparison inside the driver failed: %s" % b, b[0])
        if i > 0:
            r = prim_check(kind, c_lines[i - 1], t, out)
            if r:
                return (i, r[0], r[1])
        if not live:
            if not out.startswith(("ok", "r=", "L", "S", "Q")):
                return None   # fault / dead: nothing more is printed for this history
            continue
        try:
            if i == 0:
                # the freshly constructed containers (every construction entry point is used here)
                if kind == "L":
                    m.check(parse_l(out), extras(out).get("w"))
                elif kind == "S":
                    m.check(*parse_s(out), w=extras(out).get("w"))
                else:
                    m.check(parse_q("r=0" + out[1:])[1])
            elif kind == "L":
                m.apply(t[0], [int(x) for x in t[1:]])
                if not out.startswith("ok"):
                    return (i, "implementation reports '%s'" % out, None)
                m.check(parse_l(out), extras(out).get("w"))
            elif kind == "S":
                m.apply(t[0], [int(x) for x in t[1:]])
                if not out.startswith("ok"):
                    return (i, "implementation reports '%s'" % out, None)
                m.check(*parse_s(out), w=extras(out).get("w"))
            else:
                if not out.startswith("r="):
                    return (i, "implementation reports '%s' (ring broken before this operation)" % out, None) \
                        if out == "dead" else None
                res, st = parse_q(out)
                failed = any(x.endswith(":0") for x in st["t"])
                m.step(t[0], t[1:], res, failed)
                m.check(st)
        except Pre:
            live = False      # outside the documented preconditions: the abstract property says nothing any more
        except BadFn as e:
            return (i, str(e), e.fn)
        except Bad as e:
            return (i, str(e), None)
        except (ValueError, IndexError, KeyError, TypeError) as e:
            return (i, "unreadable output '%s' (%s)" % (out[:120], e), None)
    return None


def run_c_resilient(cbin, hists, max_restarts=60):
    """Run the histories through the implementation driver.  Returns (per-history output lines or None
    when the history was not run, list of (history index, stderr) for the histories in which the driver
    stopped, seconds).  A crash / sanitizer abort costs only the history it happened in: the remaining
    histories are run by a fresh process, so that they are judged on their own output."""
    t0 = time.time()
    outs = [None] * len(hists)
    crashes = []
    start = 0
    restarts = 0
    flush = False
    while start < len(hists):
        part = hists[start:]
        text = "\n".join("\n".join(h) for h in part) + "\n"
        rc, out, err = run_bin(cbin, text, flush=flush)
        want = sum(len(h) for h in part)
        if rc == 0 and len(out) == want:
            pos = 0
            for k, h in enumerate(part):
                outs[start + k] = out[pos:pos + len(h)]
                pos += len(h)
            break
        if not flush:
            flush = True          # again, line buffered, to see how far it got
            continue
        pos = 0
        k = 0
        while k < len(part) and pos + len(part[k]) <= len(out):
            outs[start + k] = out[pos:pos + len(part[k])]
            pos += len(part[k])
            k += 1
        if k >= len(part):
            break                 # everything was printed, the driver failed while exiting
        outs[start + k] = out[pos:]            # the history in which the driver stopped: partial output
        crashes.append((start + k, " ".join(err.split())[:300], rc))
        start += k + 1
        restarts += 1
        if restarts >= max_restarts:
            break                 # the rest stays None: not run, not judged
    return outs, crashes, time.time() - t0


def check_histories(ctx, cbin, mbin, hists, label, oracle=True, stats=None):
    """Run the histories through both drivers, diff, run the oracle.  Returns list of failing
    (history, index, message, c_lines, m_lines) and the flattened outputs."""
    text = "\n".join("\n".join(h) for h in hists) + "\n"
    t0 = time.time()
    rc_m, m_out, m_err = run_bin(mbin, text)
    t1 = time.time()
    if rc_m != 0:
        raise vlib.CheckError("model driver failed on %s: rc=%s %s" % (label, rc_m, m_err[-500:]))
    c_outs, crashes, t_c = run_c_resilient(cbin, hists)
    nlines = sum(len(h) for h in hists)
    if stats is not None:
        stats["ops"] = stats.get("ops", 0) + nlines - len(hists)
        stats["t_model"] = stats.get("t_model", 0) + t1 - t0
        stats["t_c"] = stats.get("t_c", 0) + t_c
    fails = []
    pos = 0
    n_diff_h = 0
    n_skipped = 0
    first_diff = None
    c_flat = []
    for k, h in enumerate(hists):
        m_l = m_out[pos:pos + len(h)]
        c_l = c_outs[k]
        if c_l is None:
            n_skipped += 1
            c_flat.extend([""] * len(h))
            pos += len(h)
            continue
        c_flat.extend(c_l + [""] * (len(h) - len(c_l)))
        differs = c_l != m_l
        if differs:
            n_diff_h += 1
            if first_diff is None:
                d = vlib.first_diff(c_l, m_l)
                first_diff = pos + (d if d is not None else 0)
        pos += len(h)
        r = None
        if differs or stats is None or stats.get("oracle_all", True):
            r = oracle_history(h, c_l, abstract=oracle)
            if stats is not None:
                stats["oracle_ops" if oracle else "token_ops"] = stats.get("oracle_ops" if oracle else "token_ops", 0) + len(h) - 1
        if r:
            fails.append((h, r[0], r[1], c_l, m_l, r[2], oracle))
        elif differs and not oracle:
            fails.append((h, vlib.first_diff(c_l, m_l), None, c_l, m_l, None, oracle))
    if n_diff_h or crashes:
        what = "correspondence %s: implementation and model differ in %d of %d histories (first at line %s)" % (
            label, n_diff_h, len(hists), first_diff)
        if crashes:
            what += "; the implementation driver stopped in %d histories (first: history %d, rc=%s): %s" % (
                len(crashes), crashes[0][0], crashes[0][2], crashes[0][1])
        if n_skipped:
            what += "; %d histories not run after %d restarts" % (n_skipped, len(crashes))
        ctx.tie_broken(what)
    return fails, (c_flat, m_out)


def shrink(ctx, cbin, hist, idx, abstract=True):
    """smallest prefix-closed sub-history on which the oracle still fails on the implementation"""
    head, ops = hist[0], hist[1:idx + 1]

    def fails(cand):
        h = [head] + cand
        rc, out, err = run_bin(cbin, "\n".join(h) + "\n", flush=True, timeout=20)
        return oracle_history(h, out, abstract) is not None
    if not fails(ops):
        return hist[:idx + 1]
    ops = vlib.ddmin(ops, fails, max_tests=250)
    return [head] + ops


# the C driver sends every second queue operation (odd line number in its history) through the typed alias macro
QALIAS = {"push_fore": "A_QUE_PUSH_FORE", "push_back": "A_QUE_PUSH_BACK", "pull_fore": "A_QUE_PULL_FORE",
          "pull_back": "A_QUE_PULL_BACK", "insert": "A_QUE_INSERT", "remove": "A_QUE_REMOVE", "at": "A_QUE_AT",
          "fore": "A_QUE_FORE", "back": "A_QUE_BACK", "push_sort": "A_QUE_PUSH_SORT"}


def entry_point(i, op):
    return QALIAS[op] if (i & 1) and op in QALIAS else "a_que_" + op


def blame_alias(cbin, small, r, abstract):
    """A queue operation failed.  Run the same history with one read-only operation put in front of the
    failing one: that flips the entry point (function <-> alias macro) the driver uses for it.  When the
    failure goes away the entry point is to blame, not the operation: return its name."""
    k = r[0]
    if small[0].split()[0] != "Q" or r[2] or not (0 < k < len(small)):
        return None, ""
    op = small[k].split()[0]
    if op not in QALIAS:
        return None, ""
    via = entry_point(k, op)
    shifted = small[:k] + ["fore 0"] + small[k:]
    rc, out, err = run_bin(cbin, "\n".join(shifted) + "\n", flush=True, timeout=20)
    r2 = oracle_history(shifted, out, abstract)
    note = " [entry point used: %s]" % via
    if r2 is None:
        return via, note + " [does not fail through %s]" % entry_point(k + 1, op)
    return None, note


def report_fail(ctx, cbin, h, idx, msg, c_l, m_l, label, fn=None, abstract=True):
    small = shrink(ctx, cbin, h, idx, abstract)
    rc, out, err = run_bin(cbin, "\n".join(small) + "\n", flush=True, timeout=20)
    r = oracle_history(small, out, abstract)
    if r is None:
        small, r, out = h[:idx + 1], (idx, msg, fn), c_l[:idx + 1]
    kind = {"L": "a_list", "S": "a_slist", "Q": "a_que"}[small[0].split()[0]]
    opn = small[min(r[0], len(small) - 1)].split()[0]
    via, note = blame_alias(cbin, small, r, abstract)
    frames = [f for f in re.findall(r"#\d+ 0x[0-9a-f]+ in (\w+)", err) if f.startswith(("a_", "A_"))]
    if frames and "no output" in r[1]:
        note += " [sanitizer stack: %s]" % " < ".join(frames[:5])
    key = "%s/%s" % (kind, r[2] or via or opn)  # an accessor / macro / primitive / alias failure is keyed by its function
    return ctx.report(key=key, what="%s: after '%s': %s%s" % (key, small[min(r[0], len(small) - 1)], r[1], note),
                      replay={"kind": label, "history": small, "failing_op": r[0], "observed": out[-3:],
                              "abstract": abstract, "message": r[1], "sanitizer": " ".join(err.split())[:600],
                              "how": "feed 'history' (one line each) to build/C05/drv built from the tree; "
                                     "python3 tools/vcheck.py C05 --replay <this file>"})


def build(ctx):
    cbin = ctx.cc("drv", [H / "drv.c"], repo_srcs=["que.c", "a.c"], mode="asan")
    ml = ctx.extract("C05/Extract.v", ["C05/extracted/c05model.ml", "C05/extracted/c05model.mli"])
    mbin = ctx.ocaml_build("mdrv", ml[::-1] + [H / "mdrv.ml"])
    return cbin, mbin


def corpus_histories():
    hs = []
    if CORPUS.exists():
        for f in sorted(CORPUS.glob("*.txt")):
            lines = [ln.strip() for ln in f.read_text().splitlines() if ln.strip() and not ln.startswith("#")]
            hs.extend(split_histories(lines))
    return hs


def exhaustive_small(kind):
    """every history of a few operations on tiny containers (thorough tier)"""
    import itertools
    hs = []
    if kind == "S":
        # lists of 0..3 nodes, then every single op in every position
        for k in range(4):
            base = ["S 4"] + ["add_tail 1 %d" % (3 + i) for i in range(k)]
            nodes = [3 + i for i in range(k)]
            for op in (["rot 1", "del_head 1", "ctor 1", "init 1", "dtor 1", "add_head 1 6", "add_tail 1 6", "mov 1 2 2"]
                       + ["link %d %d" % (p, q_) for p, q_ in zip([1] + nodes, nodes)]
                       + ["del 1 %d" % p for p in [1] + nodes] + ["add 1 %d 6" % p for p in [1] + nodes]):
                for op2 in ["rot 1", "add_tail 1 5", "del_head 1", "mov 2 1 1"]:
                    if op.startswith(("mov 1", "ctor", "init", "dtor")):
                        hs.append(base + [op, "ctor 1", "add_tail 1 5", "rot 1"])
                    else:
                        hs.append(base + [op, op2])
    if kind == "Q":
        for k in range(5):
            base = ["Q"] + ["push_back 0 %d" % (i % 3) for i in range(k)]
            ids = [3 + i for i in range(k)]
            singles = (["pull_fore 0", "pull_back 0", "push_fore 0 1", "drop 0", "setz 0 24", "swap 0 1", "swap 0 0",
                        "sort_fore 0 1", "sort_back 0 1", "sort_fore 0 0", "sort_back 0 0", "push_sort 0 1 1",
                        "push_sort 0 0 1", "fore 0", "back 0"]
                       + ["insert 0 %d 7" % i for i in range(k + 2)] + ["remove 0 %d" % i for i in range(k + 2)]
                       + ["at 0 %d" % i for i in range(-k - 1, k + 1)]
                       + ["swap_e %d %d" % (a, b) for a in ids for b in ids])
            for op in singles:
                hs.append(base + [op, "push_back 0 2", "at 0 -1", "pull_fore 0"])
    return hs


LIST_FUNCS = ("a_list_ctor a_list_init a_list_dtor a_list_link a_list_loop a_list_add_ a_list_add_node a_list_add_next a_list_add_prev "
              "a_list_del_ a_list_del_node a_list_del_next a_list_del_prev a_list_set_ a_list_set_node a_list_mov_next a_list_mov_prev "
              "a_list_rot_next a_list_rot_prev a_list_swap_ a_list_swap_node").split()
SLIST_FUNCS = ("a_slist_ctor a_slist_init a_slist_dtor a_slist_link a_slist_add a_slist_add_head a_slist_add_tail a_slist_del "
               "a_slist_del_head a_slist_mov a_slist_rot").split()
GEN_HEADER = ("(* GENERATED by tools/c2heap.py from the current sources - do not edit. *)\nFrom Coq Require Import NArith List.\n"
              "From LibaV Require Import C05.DListDefs C05.SListDefs.\nLocal Open Scope N_scope.\n\n")


def run(ctx):
    ok = ctx.prove()
    # second tie (translator): every a_list_* and a_slist_* function of the headers is REGENERATED as a checked heap program (each
    # field read and write, in the C's order) and proved equal to the hand model for every heap and every address
    ctx.heap_translate_and_tie(
        H / "list_unit.c",
        [(LIST_FUNCS, {"heap": "h", "heap_type": "dheap", "fields": {"next": ["rd_next", "wr_next"], "prev": ["rd_prev", "wr_prev"]}}),
         (SLIST_FUNCS, {"heap": "w", "heap_type": "sworld", "fields": {"next": ["s_rd", "s_wr"], "tail": ["t_rd", "t_wr"]},
                        "embedded": ["head"]})],
        "GenList", GEN_HEADER, H / "TieList.v")
    # third tie (translator): the queue functions of que.c / que.h are REGENERATED over a concrete queue state (pool array, fill
    # count, capacity) and proved to simulate the hand model QueDefs.v under the abstraction relation R (tools/vque.py,
    # harness/C05/TieQue*.v); it runs next to the correspondence below and is joined before the failures are reported
    que_tie = vque.que_translate_and_tie(ctx, background=True)
    cbin, mbin = build(ctx)
    quick = ctx.quick
    stats = {"oracle_all": True}
    fails = []
    tags = {}
    tdist = {}

    def add_tags(ts):
        for t in ts:
            tags[t] = tags.get(t, 0) + 1

    # ---- corpus first
    hs = corpus_histories()
    if hs:
        f, _ = check_histories(ctx, cbin, mbin, hs, "corpus", stats=stats)
        fails += [x + ("corpus",) for x in f]

    seeds = [0] if quick else [0, 1, 2, 3, 4]
    all_seen = set()
    nontrivial = 0
    samples = []
    for sd in seeds:
        batches = []
        # dlist, valid histories
        rng = random.Random(ctx.subseed("dlist-valid-%d" % sd))
        hs = []
        for _ in range(250 if quick else 1500):
            h, tg = gen_dlist(rng, rng.choice([20, 40, 80]), rng.choice([3, 4, 6, 9, 12]))
            hs.append(h)
            add_tags("list:" + t for t in tg)
        batches.append(("dlist-valid", hs, True))
        rng = random.Random(ctx.subseed("dlist-wild-%d" % sd))
        batches.append(("dlist-wild", [gen_dlist_wild(rng, 40, rng.choice([2, 3, 5, 8])) for _ in range(150 if quick else 1200)], False))
        rng = random.Random(ctx.subseed("slist-valid-%d" % sd))
        hs = []
        for _ in range(200 if quick else 1200):
            h, tg = gen_slist(rng, rng.choice([15, 40, 80]), rng.choice([1, 2, 3, 6, 10]))
            hs.append(h)
            add_tags("slist:" + t for t in tg)
        batches.append(("slist-valid", hs, True))
        rng = random.Random(ctx.subseed("slist-wild-%d" % sd))
        batches.append(("slist-wild", [gen_slist_wild(rng, 40, rng.choice([1, 2, 4])) for _ in range(100 if quick else 600)], False))
        rng = random.Random(ctx.subseed("queue-%d" % sd))
        hs = []
        for i in range(500 if quick else 2600):
            h, tg = gen_queue(rng, rng.choice([30, 60, 120]), faults=(i % 3 == 2))
            hs.append(h)
            add_tags("que:" + t for t in tg)
        batches.append(("queue", hs, True))
        rng = random.Random(ctx.subseed("queue-dropfault-%d" % sd))
        hs = []
        for i in range(80 if quick else 800):
            h, tg = gen_queue_dropfault(rng)
            hs.append(h)
            add_tags("que:" + t for t in tg)
        batches.append(("queue-dropfault", hs, True))
        if not quick and sd == 0:
            batches.append(("slist-exhaustive-small", exhaustive_small("S"), True))
            batches.append(("queue-exhaustive-small", exhaustive_small("Q"), True))
        for label, hs, use_oracle in batches:
            f, (c_out, m_out) = check_histories(ctx, cbin, mbin, hs, label, oracle=use_oracle, stats=stats)
            fails += [x + (label,) for x in f]
            tdist[label] = tdist.get(label, 0) + sum(len(h) - 1 for h in hs)
            # coverage: distinct (operation, resulting canonical line) pairs that changed the state or returned something
            pos = 0
            for h in hs:
                for i in range(1, len(h)):
                    cur = c_out[pos + i] if pos + i < len(c_out) else ""
                    prev = c_out[pos + i - 1] if pos + i - 1 < len(c_out) else ""
                    changed = cur.split(" ", 1)[-1] != prev.split(" ", 1)[-1] or not cur.startswith(("ok", "r=0 "))
                    if changed:
                        k = hash((h[i], cur))
                        if k not in all_seen:
                            all_seen.add(k)
                            nontrivial += 1
                            if len(samples) < 6 and (nontrivial % 997 == 1):
                                samples.append({"op": h[i], "implementation": cur[:200], "model": (m_out[pos + i] if pos + i < len(m_out) else "")[:200]})
                pos += len(h)
        if time.time() - ctx.t0 > (70 if quick else 540):
            ctx.notes.append("time budget reached after seed %d" % sd)
            break

    if hasattr(que_tie, "result"):
        que_tie.result()
    # ---- failures: shrink and report (one per key)
    seen_keys = set()
    for h, idx, msg, c_l, m_l, fn, abstract, label in fails:
        if msg is None:
            continue     # wild history: a difference without an abstract meaning; the tie is already recorded as broken
        kind = h[0].split()[0]
        k = (kind, fn or (h[idx].split()[0] if idx < len(h) else "?"))
        if k in seen_keys or len(seen_keys) >= 6:
            continue
        seen_keys.add(k)
        report_fail(ctx, cbin, h, idx, msg, c_l, m_l, label, fn, abstract)
    if ctx.broken_ties and not any(f[2] for f in fails):
        # the correspondence broke but the property holds on everything examined: try the wild
        # differences once more through fresh valid histories around the same operations
        ctx.notes.append("tie broken without a property failure on %d examined operations" % stats.get("oracle_ops", 0))

    ctx.count(evaluations=stats.get("ops", 0), nontrivial=nontrivial)
    ctx.cov["rule"] = ("evaluations = operations executed by both the extracted model and the C implementation and compared "
                       "line by line; distinct_nontrivial = distinct (operation, resulting canonical state) pairs in which "
                       "the operation changed the dumped state or returned a non-null result")
    for s_ in samples:
        ctx.sample(s_)
    want = expected_tags()
    ctx.cov["op_distribution"] = tdist
    ctx.cov["situations_hit"] = dict(sorted(tags.items()))
    ctx.cov["situations_not_reached"] = sorted(t for t in want if t not in tags)
    ctx.cov["oracle_operations_checked"] = stats.get("oracle_ops", 0)
    ctx.cov["accessor_token_only_operations_checked"] = stats.get("token_ops", 0)
    ctx.cov["seconds"] = {"model": round(stats.get("t_model", 0), 1), "implementation": round(stats.get("t_c", 0), 1)}
    ctx.cov["trusted_base"].extend([
        "extraction with ExtrOcamlBasic only; hand-written drivers harness/C05/mdrv.ml and harness/C05/drv.c",
        "C semantics/compiler not verified; ASan+UBSan observe memory safety of the C run",
        "queue counters num_/mem_ modelled as unbounded naturals (cannot wrap: >= 17 bytes per element)",
        "the abstract machines of checks/C05.py (DL/SL/QU) restate the Rocq specifications in Python for the search oracle"])
    ctx.log("ops compared %d (model %.1fs, C %.1fs), oracle-checked %d, distinct nontrivial %d, failing histories %d"
            % (stats.get("ops", 0), stats.get("t_model", 0), stats.get("t_c", 0), stats.get("oracle_ops", 0), nontrivial, len(fails)))


def expected_tags():
    return set("""que:new:pool que:new:fresh que:new:fault que:die:grow que:die:room que:die:fault
que:insert:inside que:insert:at-end que:insert:beyond que:remove:inside que:remove:beyond que:remove:beyond-empty
que:at:front-hit que:at:back-hit que:at:miss+ que:at:miss- que:sort_fore:stay que:sort_fore:move que:sort_fore:to-end
que:sort_fore:short que:sort_back:stay que:sort_back:move que:sort_back:to-front que:sort_back:short
que:push_sort:empty que:push_sort:at-end que:push_sort:move que:push_sort:to-front
que:swap_e:same que:swap_e:two-queues que:swap_e:adjacent-lr que:swap_e:adjacent-rl que:swap_e:apart
que:swap:self que:swap:empty-empty que:swap:empty-full que:swap:full-empty que:swap:full-full
que:drop que:drop:reserve que:drop:fault que:setz que:setz:grow que:setz:fault que:pull_fore:empty que:pull_fore:last que:pull_back:empty
que:pull_back:last que:reset
slist:rot:len0 slist:rot:len1 slist:rot:len2+ slist:add:empty slist:add:last slist:add:inner slist:add_head:empty
slist:add_tail:empty slist:add_tail:last slist:del:none slist:del:last slist:del:inner slist:del_head:none
slist:del_head:last slist:del_head:inner slist:mov:empty-src slist:mov:at-last slist:mov:at-inner slist:ctor
slist:init slist:dtor slist:link list:ctor list:dtor
list:init list:add_next:ring1 list:add_next:ring3+ list:add_prev:ring1 list:add_prev:ring3+ list:add_:ring+ring
list:add_:ring+open list:add_:open+ring list:add_:open+open list:add_node:ring+ring list:add_node:open+ring
list:del_:whole list:del_:sec1 list:del_:sec3+ list:del_node:whole list:del_node:sec1 list:del_next:whole
list:del_next:sec1 list:del_prev:sec1 list:set_:ring list:set_:open list:set_node:ring list:mov_next:empty
list:mov_next:src1 list:mov_next:src3+ list:mov_prev:empty list:mov_prev:src3+ list:rot_next:ring1 list:rot_next:ring2
list:rot_next:ring3+ list:rot_prev:ring1 list:rot_prev:ring2 list:rot_prev:ring3+ list:swap_:same-ring
list:swap_:two-rings list:swap_node:same-ring list:swap_node:two-rings""".split())


def replay(ctx, path):
    """re-run a replay file against the current tree: exit 1 if the property still fails"""
    obj = json.loads(Path(path).read_text())
    hist = obj["replay"]["history"]
    cbin = ctx.cc("drv", [H / "drv.c"], repo_srcs=["que.c", "a.c"], mode="asan")
    rc, out, err = run_bin(cbin, "\n".join(hist) + "\n", flush=True, timeout=60)
    r = oracle_history(hist, out, obj["replay"].get("abstract", True))
    for a, b in zip(hist, out):
        print("%-40s -> %s" % (a, b))
    if r:
        print("STILL FAILS at op %d (%s): %s" % (r[0], hist[r[0]] if r[0] < len(hist) else "?", r[1]))
        return 1
    print("property holds on this history now")
    return 0
