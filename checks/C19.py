"""C19: integer square root, gcd/lcm, bit reversal, byte-order accessors.

Proof: coq/Properties_C19.v (model coq/C19/IntDefs.v).  Tie: the extracted model and the C built from the
current /repo tree run on the same cases and must print identical lines.  Search oracle: the property itself
(exact integer arithmetic in Python, and an exhaustive C-side sweep of all 2^32 sqrt arguments in thorough)."""
import math
import subprocess
from concurrent.futures import ThreadPoolExecutor

import vlib

META = {
    "text": "Rocq theorems for ALL 32/64-bit inputs: isqrt returns floor(sqrt x) (Newton loop with the code's start value "
            "never wraps, divides by zero or runs out of its 40 iterations), gcd = N.gcd with divisor/greatest clauses, "
            "lcm exact and lcm*gcd = a*b when representable (else the true lcm mod 2^w), bit reversal = bit mirror + involution "
            "for 8/16/32/64 bits (GF(2) linearity lifting of a w-element vm_compute sweep), get/set inverse pairs and byte "
            "layout for every byte count.  The hand-written model is tied to /repo by running the extracted model and the C "
            "on the same cases; the property itself is also evaluated on every C output (thorough: all 2^32 sqrt arguments).",
    "note": "Trusted: Coq kernel + vm_compute; extraction (ExtrOcamlBasic only) and the OCaml/C drivers; the hand-written "
            "model coq/C19/IntDefs.v corresponds to the C only as far as the generated cases show (clz-based BSR modelled as "
            "N.log2; the digit-by-digit #else branch is not compiled on this platform and not modelled). No axioms.",
    "technique": "Rocq proof (induction on Newton/Euclid fuel, GF(2) lifting, bitwise extensionality) + extracted-model vs C correspondence",
}

H = vlib.VERIF / "harness" / "C19"
M32, M64 = (1 << 32) - 1, (1 << 64) - 1


def gen_cases(ctx):
    r = ctx.rng.__class__(ctx.subseed("cases"))
    n_rand = 4000 if ctx.quick else 60000
    cases = []
    corpus = vlib.VERIF / "corpus" / "C19" / "cases.txt"
    if corpus.exists():
        cases += [l.strip() for l in corpus.read_text().splitlines() if l.strip() and not l.startswith("#")]

    def words(w):
        m = (1 << w) - 1
        out = {0, 1, 2, 3, m, m - 1, m >> 1, (m >> 1) + 1}
        for k in range(w):           # powers of two +-1: the sqrt proof splits on bit-length parity
            for d in (-1, 0, 1):
                out.add(((1 << k) + d) & m)
        for k in range(1, w // 2 + 1):  # squares +-1 near every bit length
            for base in ((1 << k) - 1, (1 << k), (1 << k) + 1, r.randrange(1 << (k - 1), 1 << k)):
                for d in (-1, 0, 1):
                    v = base * base + d
                    if 0 <= v <= m:
                        out.add(v)
        return sorted(out)

    for w in (32, 64):
        ws = words(w)
        for x in ws:
            cases.append("sqrt%d %x" % (w, x))
            cases.append("rev%d %x" % (w, x))
        for _ in range(n_rand):
            x = r.getrandbits(r.randrange(1, w + 1))
            cases.append("sqrt%d %x" % (w, x))
        for _ in range(n_rand // 2):
            cases.append("rev%d %x" % (w, r.getrandbits(w)))
        # gcd/lcm: small, coprime, multiples, Fibonacci neighbours (slowest Euclid), huge
        fib = [1, 1]
        while fib[-1] + fib[-2] <= (1 << w) - 1:
            fib.append(fib[-1] + fib[-2])
        pairs = [(0, 0), (0, 1), (1, 0), (6, 9), ((1 << w) - 1, (1 << w) - 1), ((1 << w) - 1, 1), (1, (1 << w) - 1),
                 (fib[-1], fib[-2]), (fib[-2], fib[-1]), (fib[-2], fib[-3])]
        for _ in range(n_rand // 2):
            k = r.choice([4, 8, 16, w // 2, w])
            g = r.getrandbits(r.randrange(1, k + 1)) or 1
            a = g * r.getrandbits(r.randrange(0, max(1, w - g.bit_length()) + 1))
            b = g * r.getrandbits(r.randrange(0, max(1, w - g.bit_length()) + 1))
            pairs.append((a & ((1 << w) - 1), b & ((1 << w) - 1)))
        for a, b in pairs:
            cases.append("gcd%d %x %x" % (w, a, b))
            cases.append("lcm%d %x %x" % (w, a, b))
    for x in range(256):
        cases.append("rev8 %x" % x)
    for x in (range(65536) if not ctx.quick else [r.getrandbits(16) for _ in range(3000)] + [0, 1, 0x8000, 0xFFFF]):
        cases.append("rev16 %x" % x)
    for w in (16, 32, 64):
        for _ in range(n_rand // 8 + 8):
            x = r.getrandbits(w)
            cases.append("setl%d %x" % (w, x))
            cases.append("setb%d %x" % (w, x))
            bs = " ".join("%x" % r.getrandbits(8) for _ in range(w // 8))
            cases.append("getl%d %s" % (w, bs))
            cases.append("getb%d %s" % (w, bs))
        for x in (0, 1, (1 << w) - 1, 0x0102030405060708 & ((1 << w) - 1), 1 << (w - 1)):
            cases.append("setl%d %x" % (w, x))
            cases.append("setb%d %x" % (w, x))
    return cases


def oracle(case, out):
    """The property itself, evaluated on what the C printed.  Returns None if it holds, else a description."""
    t = case.split()
    fn, a = t[0], [int(x, 16) for x in t[1:]]
    try:
        res = [int(x, 16) for x in out.split()]
    except ValueError:
        return "unparsable output %r" % out
    w = int("".join(c for c in fn if c.isdigit()))
    m = (1 << w) - 1
    if fn.startswith("sqrt"):
        x, r = a[0], res[0]
        return None if r * r <= x < (r + 1) * (r + 1) else "a_u%d_sqrt(%d)=%d, expected %d" % (w, x, r, math.isqrt(x))
    if fn.startswith("gcd"):
        g = math.gcd(a[0], a[1])
        return None if res[0] == g else "a_u%d_gcd(%d,%d)=%d, expected %d" % (w, a[0], a[1], res[0], g)
    if fn.startswith("lcm"):
        g = math.gcd(a[0], a[1])
        l = 0 if g == 0 else a[0] // g * a[1]
        if l <= m:   # representable: must be exact, and lcm*gcd = a*b
            return None if res[0] == l else "a_u%d_lcm(%d,%d)=%d, expected %d" % (w, a[0], a[1], res[0], l)
        return None
    if fn.startswith("rev"):
        x, r = a[0], res[0]
        exp = int(format(x, "0%db" % w)[::-1], 2)
        return None if r == exp else "a_u%d_rev(%#x)=%#x, expected %#x" % (w, x, r, exp)
    if fn.startswith("set"):
        exp = [(a[0] >> (8 * i)) & 255 for i in range(w // 8)]
        if fn[3] == "b":
            exp.reverse()
        return None if res == exp else "a_u%d_%s(%#x) stored %s, expected %s" % (w, fn[:4], a[0], res, exp)
    if fn.startswith("get"):
        bs = a if fn[3] == "l" else a[::-1]
        exp = sum(b << (8 * i) for i, b in enumerate(bs))
        return None if res[0] == exp else "a_u%d_%s(%s)=%#x, expected %#x" % (w, fn[:4], a, res[0], exp)
    return "unknown case"


def key_of(case):
    t = case.split()
    return "%s/%s" % (t[0], ",".join(t[1:]))


def run(ctx):
    ctx.prove()
    ctx.assumptions += [
        "model coq/C19/IntDefs.v is hand-written; tied to the C by running both on the same inputs (this check)",
        "A_U32_BSR/A_U64_BSR (= 31/63 - clz) is modelled as N.log2; the digit-by-digit #else branch (no clz builtin) is not built",
        "extraction with ExtrOcamlBasic only; OCaml driver harness/C19/mdrv.ml parses/prints hex"]
    cbin = ctx.cc("drv", [H / "drv.c"], repo_srcs=["a.c", "math.c"], mode="asan")
    ml = ctx.extract("C19/Extract.v", ["C19/extracted/intmodel.mli", "C19/extracted/intmodel.ml"])
    mbin = ctx.ocaml_build("mdrv", ml + [H / "mdrv.ml"])
    cases = gen_cases(ctx)
    text = "\n".join(cases) + "\n"
    (ctx.build / "cases.txt").write_text(text)
    rc, c_out = vlib.sh([str(cbin)], stdin=text, timeout=600)
    c_lines = c_out.splitlines()
    if rc != 0:
        ctx.tie_broken("C harness exited with %d (sanitizer report?): %s" % (rc, c_out[-800:]))
    rc2, m_out = vlib.sh([str(mbin)], stdin=text, timeout=600)
    m_lines = m_out.splitlines()
    if rc2 != 0:
        raise vlib.CheckError("model driver failed: " + m_out[-500:])
    # correspondence
    ndiff = 0
    kinds = {}
    distinct = set()
    for i, case in enumerate(cases):
        co = c_lines[i] if i < len(c_lines) else "<missing>"
        mo = m_lines[i] if i < len(m_lines) else "<missing>"
        fn = case.split()[0]
        kinds[fn] = kinds.get(fn, 0) + 1
        distinct.add(case)
        if co != mo:
            ndiff += 1
            if ndiff <= 3:
                ctx.tie_broken("correspondence C19: case %r: C printed %r, model %r" % (case, co, mo))
    # the property itself on every C output (cheap, so it always runs: it is the search oracle)
    reported = 0
    for i, case in enumerate(cases):
        if i >= len(c_lines):
            break
        why = oracle(case, c_lines[i])
        if why and reported < 5:
            reported += 1
            ctx.report(key_of(case), why, {"case": case, "c_output": c_lines[i],
                                           "model_output": m_lines[i] if i < len(m_lines) else None,
                                           "how": "echo '%s' | build/C19/drv" % case})
    ctx.count(evaluations=len(cases), nontrivial=len([c for c in distinct if c.split()[1:] not in (["0"], ["1"])]))
    ctx.cov["rule"] = ("cases = corpus + directed (powers of two +-1, squares +-1 at every bit length, Fibonacci pairs, "
                       "all u8 / (thorough: all u16) reversals) + random from VERIF_SEED; distinct = distinct case lines; "
                       "non-trivial = argument list other than a single 0 or 1")
    ctx.cov["case_kinds"] = kinds
    ctx.cov["correspondence_mismatches"] = ndiff
    for c in cases[:: max(1, len(cases) // 5)][:5]:
        ctx.sample({"case": c, "c": c_lines[cases.index(c)] if cases.index(c) < len(c_lines) else None})
    # thorough: exhaustive C-side sweep of a_u32_sqrt against the specification
    if not ctx.quick:
        shards = 32

        def one(k):
            return vlib.sh([str(cbin), "sweep32", str(k), str(shards)], timeout=1200)
        fast = ctx.cc("drv_fast", [H / "drv.c"], repo_srcs=["a.c", "math.c"], mode="num")

        def one_fast(k):
            return vlib.sh([str(fast), "sweep32", str(k), str(shards)], timeout=1200)
        bad_total = 0
        with ThreadPoolExecutor(max_workers=vlib.NPROC) as ex:
            for rc, o in ex.map(one_fast, range(shards)):
                for ln in o.splitlines():
                    if ln.startswith("BAD") and bad_total < 3:
                        _, x, r_ = ln.split()
                        x, r_ = int(x, 16), int(r_, 16)
                        ctx.report("sqrt32/%x" % x, "a_u32_sqrt(%d)=%d, expected %d" % (x, r_, math.isqrt(x)),
                                   {"case": "sqrt32 %x" % x, "c_output": "%x" % r_})
                        bad_total += 1
                    if ln.startswith("SWEEP") and not ln.endswith("bad=0"):
                        bad_total += 0
                if rc != 0:
                    ctx.tie_broken("sweep32 shard failed: " + o[-300:])
        ctx.count(evaluations=1 << 32, nontrivial=(1 << 32) - 2)
        ctx.cov["exhaustive_u32_sqrt"] = True
        ctx.notes.append("thorough: a_u32_sqrt checked against r*r <= x < (r+1)^2 for all 2^32 arguments (C-side search oracle)")
