"""C08 - LU, LDL^T and Cholesky factorisations reconstruct, solve and fail correctly.

  prove      : coq/Properties_C08.v (theorems over R about the Gallina model coq/C08/FactorDefs.v)
  tie        : the SAME Gallina term instantiated with Coq's primitive binary64 floats is evaluated by
               vm_compute inside coqc on generated matrices and compared, bit for bit and line by line,
               with the C code compiled from $VERIF_REPO (-O2 -ffp-contract=off; a second ASan/UBSan build
               must print the same lines): factor storage, permutation vector, sign, return codes, P, P_,
               L, U, D read-outs, apply/lower/upper/solve, inv (+scratch), inv_, det, lndet (libm log
               supplied as an oracle table logged with --wrap=log), sgndet for PLU, LDL and LLT.
  oracle     : harness/C08/oracle.py - the property itself in exact rational arithmetic on the C output
               (permutation/parity/multiplier/pivot shape, componentwise backward-error bounds for
               reconstruction/solve/inverse, determinant family, mandatory failure on exactly singular
               classes).  It runs on every case (its ratios are the *measured* rounding part of the
               property) and, when the tie breaks, on a fresh batch as well; failures are shrunk.
"""
import json
import random
import sys
import time
from concurrent.futures import ProcessPoolExecutor
from pathlib import Path

from tools import vlib

HD = vlib.VERIF / "harness" / "C08"
sys.path.insert(0, str(HD))
import c08lib  # noqa: E402
import gen  # noqa: E402
import oracle  # noqa: E402

REPO_SRCS = ["linalg_plu.c", "linalg_ldl.c", "linalg_llt.c", "linalg.c", "math.c", "a.c"]
OPNAME = {100: "a_real_plu", 101: "a_real_plu_P", 102: "a_real_plu_P_", 103: "a_real_plu_L", 104: "a_real_plu_U",
          105: "a_real_plu_apply", 106: "a_real_plu_lower", 107: "a_real_plu_upper", 108: "a_real_plu_solve",
          109: "a_real_plu_inv", 110: "a_real_plu_inv_", 111: "a_real_plu_det", 112: "a_real_plu_lndet",
          113: "a_real_plu_sgndet",
          200: "a_real_ldl", 201: "a_real_ldl_L", 202: "a_real_ldl_D", 203: "a_real_ldl_lower", 204: "a_real_ldl_upper",
          205: "a_real_ldl_solve", 206: "a_real_ldl_inv", 207: "a_real_ldl_inv_", 208: "a_real_ldl_det",
          209: "a_real_ldl_lndet", 210: "a_real_ldl_sgndet",
          300: "a_real_llt", 301: "a_real_llt_L", 303: "a_real_llt_lower", 304: "a_real_llt_upper",
          305: "a_real_llt_solve", 306: "a_real_llt_inv", 307: "a_real_llt_inv_", 308: "a_real_llt_det",
          309: "a_real_llt_lndet"}


def build_c(ctx):
    num = ctx.cc("drv_num", [HD / "drv.c"], repo_srcs=REPO_SRCS, mode="num", extra=["-Wl,--wrap=log"])
    asan = ctx.cc("drv_asan", [HD / "drv.c"], repo_srcs=REPO_SRCS, mode="asan", extra=["-Wl,--wrap=log"])
    return num, asan


def corpus_cases():
    res = []
    d = vlib.VERIF / "corpus" / "C08"
    if d.exists():
        for f in sorted(d.glob("*.json")):
            try:
                o = json.loads(f.read_text())
                for c in (o if isinstance(o, list) else [o]):
                    res.append(c08lib.Case.from_json(c))
            except (ValueError, KeyError, AssertionError):
                pass
    return res


def _oracle_one(args):
    case_json, lines = args
    c = c08lib.Case.from_json(case_json)
    try:
        return oracle.check(c, lines)
    except Exception as ex:           # malformed output is a failure of the run, not of the oracle
        return [("oracle/malformed-output", repr(ex)[:200])], {"ratio": {}}


def run_oracle(cases, lines, workers=None):
    jobs = [(c.to_json(), l) for c, l in zip(cases, lines)]
    if len(jobs) < 64:
        return [_oracle_one(j) for j in jobs]
    with ProcessPoolExecutor(max_workers=workers or min(vlib.NPROC, 12)) as ex:
        return list(ex.map(_oracle_one, jobs, chunksize=32))


# --------------------------------------------------------------------------- shrinking
TAG_DEPENDENT = ("input constructed with",)      # failures that rely on how the generator built the case: not shrunk


def shrink(case, kind, cbin, budget=25):
    """Greedy shrinking of a case on which the oracle reports a failure whose kind starts with the same
    routine family: drop an index (row+column), restrict the mask, simplify entries.  Every round evaluates
    all candidates with ONE run of the C driver."""
    fam = kind.split("/")[0]
    bit = {"plu": 1, "ldl": 2, "llt": 4}.get(fam, case.mask)

    def still_fails(cands):
        rc, lines, logs, tail = c08lib.run_c(vlib, cbin, cands, timeout=120)
        out = []
        for c, l in zip(cands, lines):
            try:
                f, _ = oracle.check(c, l)
            except Exception:
                f = []
            out.append([x for x in f if x[0].split("/")[0] == fam])
        return out

    cur = c08lib.Case(case.mask & bit or case.mask, case.n, case.A, case.b, case.tag)
    f0 = still_fails([cur])[0]
    if not f0:
        cur = case
        f0 = still_fails([cur])[0]
    if f0 and any(t in f0[0][1] for t in TAG_DEPENDENT):
        return cur, f0
    for _ in range(budget):
        n = cur.n
        cands = []
        if n > 1:
            for k in range(n):
                keep = [i for i in range(n) if i != k]
                cands.append(c08lib.Case(cur.mask, n - 1, [cur.A[n * r + c] for r in keep for c in keep],
                                         [cur.b[r] for r in keep], cur.tag))
        for i, u in enumerate(cur.A + cur.b):
            x = c08lib.b2d(u)
            for y in (0.0, 1.0, float(round(x)) if abs(x) < 1e15 and x == x else 0.0, float("%.2g" % x) if x == x and abs(x) != float("inf") else 0.0):
                v = c08lib.d2b(y)
                if v != u:
                    A = list(cur.A)
                    b = list(cur.b)
                    if i < n * n:
                        A[i] = v
                    else:
                        b[i - n * n] = v
                    cands.append(c08lib.Case(cur.mask, n, A, b, cur.tag))
        if not cands:
            break
        res = still_fails(cands)
        nxt = None
        for c, f in zip(cands, res):
            if f and not any(t in f[0][1] for t in TAG_DEPENDENT):
                nxt = c
                break
        if nxt is None:
            break
        cur = nxt
    fails = still_fails([cur])[0]
    return cur, fails


def describe_diff(case, c_lines, m_lines):
    i = vlib.first_diff(c_lines, m_lines)
    if i is None:
        return None
    cl = c_lines[i] if i < len(c_lines) else "(missing)"
    ml = m_lines[i] if i < len(m_lines) else "(missing)"
    op = int((cl if cl != "(missing)" else ml).split()[0])
    cw, mw = cl.split()[1:], ml.split()[1:]
    j = vlib.first_diff(cw, mw)
    return {"routine": OPNAME.get(op, str(op)), "opcode": op, "item": j,
            "c": cw[j] if j is not None and j < len(cw) else None,
            "model": mw[j] if j is not None and j < len(mw) else None}


# --------------------------------------------------------------------------- main
def clean_vo():
    """thorough tier: rebuild the property's own files from scratch (other properties' files are not touched)"""
    for f in list((vlib.COQ / "C08").glob("*.vo*")) + list((vlib.COQ / "C08").glob("*.glob")) + \
            list(vlib.COQ.glob("Properties_C08.vo*")) + list(vlib.COQ.glob("Properties_C08.glob")):
        try:
            f.unlink()
        except OSError:
            pass


def run(ctx, extra_cases=()):
    t0 = time.time()
    if not ctx.quick:
        clean_vo()
    proved = ctx.prove()
    # translator tie: the LDL^T / Cholesky families and the permutation-free PLU routines are re-translated on every run with the
    # order fixed (0..4), loops unrolled, callees inlined, arrays exactly sized, and proved to compute what the hand model
    # computes for ALL matrix entries and every instance of the numeric interface (160 tie theorems)
    by_src = {}
    for ln in (HD / "tie_names.txt").read_text().splitlines():
        src_, spec_ = ln.split()
        by_src.setdefault(src_, []).append(spec_)
    ctx.translate_and_tie(list(by_src.items()), "GenFac", sorted(HD.glob("TieFac*.v")), have=1, real=8, extra_sources=["src/linalg.c"])
    # ... and the loop routines with their loops as Fixpoints (tools/c2arr.py), proved equal to the model for EVERY order that is
    # an a_uint value (harness/C08/TieLoop*.v)
    import varr
    varr.arr_translate_and_tie(ctx, "C08")
    if proved and not ctx.quick:
        rc, out = vlib.sh(["coqchk", "-silent", "-o", "-Q", ".", "LibaV", "LibaV.Properties_C08"], cwd=vlib.COQ, timeout=1200)
        ok = rc == 0 and "type-in-type: <none>" in out and "unsafe (co)fixpoints: <none>" in out \
            and "positivity is assumed: <none>" in out
        ctx.cov["coqchk"] = "coqchk -o LibaV.Properties_C08: %s" % ("ok" if ok else "FAILED rc=%d" % rc)
        if not ok:
            ctx.tie_broken("coqchk rejected Properties_C08: " + out[-600:])
        ctx.log(ctx.cov["coqchk"])

    cnum, casan = build_c(ctx)
    rng = random.Random(ctx.subseed("C08/cases"))
    if ctx.quick:
        sizes = [(1, 2), (2, 4), (3, 5), (4, 5), (5, 4), (6, 4), (7, 1), (8, 1)]
        cases = gen.gen_cases(rng, 2000, sizes)
        cases += gen.gen_cases(rng, 24, [(10, 1), (12, 1)])
        cases += gen.gen_cases(rng, 8, [(17, 1), (18, 1)])      # beyond a 16-wide blocking factor
    else:
        cases = []
        for k in range(5):
            r2 = random.Random(ctx.subseed("C08/cases/%d" % k))
            cases += gen.gen_cases(r2, 5000, [(1, 2), (2, 4), (3, 5), (4, 5), (5, 4), (6, 4), (7, 2), (8, 2), (9, 1)])
            cases += gen.gen_cases(r2, 260, [(10, 1), (11, 1), (12, 1), (13, 1), (14, 1)])
            cases += gen.gen_cases(r2, 40, [(15, 1), (16, 1), (17, 1), (18, 1), (19, 1), (20, 1)])
            cases += gen.gen_cases(r2, 13, [(21, 1), (22, 1), (23, 1), (24, 1)])
            cases += gen.gen_cases(r2, 3, [(33, 1), (35, 1)])   # beyond a 32-wide blocking factor
    cases = list(extra_cases) + corpus_cases() + gen.fixed_cases() + cases
    ctx.log("generated %d cases" % len(cases))

    # ---- implementation runs (current $VERIF_REPO tree) ----
    rc, c_lines, logs, tail = c08lib.run_c(vlib, cnum, cases, timeout=900)
    if rc != 0:
        # the plain -O2 build crashed or hung: the first case without output is a failing input
        k = next((i for i, l in enumerate(c_lines) if not l), len(cases) - 1)
        ctx.tie_broken("the C driver (-O2 build) exited with status %d at case %d (%s)" % (rc, k, cases[k].tag))
        ctx.report("crash/n=%d" % cases[k].n,
                   "the C code crashed or hung (exit status %d) on case %d (%s, n=%d): %s"
                   % (rc, k, cases[k].tag, cases[k].n, tail[-400:]),
                   {"case": cases[k].to_json(), "case_line": cases[k].line(), "exit_status": rc,
                    "how": "echo '<case_line>' | build/C08/drv_num"}, found_input=True)
        return
    rca, a_lines, _, atail = c08lib.run_c(vlib, casan, cases, timeout=1500)
    san_case = None
    if rca != 0:
        # ASan/UBSan abort: the first case without complete output is a failing input
        k = next((i for i, l in enumerate(a_lines) if len(l) < len(c_lines[i])), len(cases) - 1)
        san_case = k
        ctx.tie_broken("sanitizer abort in the C driver at case %d (%s)" % (k, cases[k].tag))
        ctx.report("sanitizer/n=%d" % cases[k].n,
                   "ASan/UBSan abort while running case %d (%s): %s" % (k, cases[k].tag, atail[-600:]),
                   {"case": cases[k].to_json(), "sanitizer_output": atail[-3000:],
                    "how": "build harness/C08/drv.c with -fsanitize=address,undefined against $VERIF_REPO/src and feed the case line",
                    "case_line": cases[k].line()}, found_input=True)
    else:
        k = next((i for i in range(len(cases)) if a_lines[i] != c_lines[i]), None)
        if k is not None:
            ctx.tie_broken("-O2 and -O1/ASan builds of the C code disagree on case %d: %s"
                           % (k, describe_diff(cases[k], c_lines[k], a_lines[k])))

    # ---- model run (vm_compute inside coqc) ----
    t1 = time.time()
    m_lines = c08lib.run_model(ctx, vlib, cases, logs, timeout=1500)
    ctx.log("model evaluated on %d cases in %.1fs" % (len(cases), time.time() - t1))
    diffs = [i for i in range(len(cases)) if m_lines[i] != c_lines[i]]
    diffset = set(diffs)
    nlines = sum(len(l) for l in c_lines)
    if diffs:
        k = diffs[0]
        dd = describe_diff(cases[k], c_lines[k], m_lines[k])
        ctx.tie_broken("correspondence C vs Gallina model (binary64, bit-exact): %d of %d cases differ; first: case %d "
                       "(%s, n=%d) routine %s item %s: C=%s model=%s"
                       % (len(diffs), len(cases), k, cases[k].tag, cases[k].n, dd["routine"], dd["item"], dd["c"], dd["model"]))

    # ---- oracle: the property on the C output ----
    t2 = time.time()
    sel = list(range(len(cases)))
    if not ctx.quick:       # exact rational arithmetic on the big orders is slow: all small ones, a sample of the big ones
        sel = [i for i in sel if cases[i].n <= 12 or i in diffset or i % 4 == 0]
    res = run_oracle([cases[i] for i in sel], [c_lines[i] for i in sel])
    ratios, st = {}, {}
    failing = []
    for i, (f, s) in zip(sel, res):
        for k2, v in s.get("ratio", {}).items():
            ratios[k2] = max(ratios.get(k2, 0.0), v)
        for k2, v in s.items():
            if k2 != "ratio":
                st[k2] = st.get(k2, 0) + v
        if f:
            failing.append((i, f))
    ctx.log("oracle on %d cases in %.1fs: %d failing" % (len(sel), time.time() - t2, len(failing)))

    extra_eval = 0
    if (diffs or ctx.broken_ties) and not failing:
        # the tie broke and nothing explored so far violates the property: search a fresh, larger batch (C only)
        r3 = random.Random(ctx.subseed("C08/search"))
        fresh = gen.gen_cases(r3, 6000 if ctx.quick else 40000, [(1, 1), (2, 3), (3, 4), (4, 4), (5, 3), (6, 2), (7, 1)])
        rc3, f_lines, _, _ = c08lib.run_c(vlib, cnum, fresh, timeout=600)
        fres = run_oracle(fresh, f_lines)
        extra_eval = len(fresh)
        for j, (f, s) in enumerate(fres):
            if f:
                cases.append(fresh[j])
                c_lines.append(f_lines[j])
                failing.append((len(cases) - 1, f))
        ctx.log("search oracle on %d fresh cases: %d failing" % (len(fresh), len(failing)))

    # report (shrunk), one per failure kind
    seen = set()
    for i, f in sorted(failing, key=lambda t: cases[t[0]].n):
        kind = f[0][0]
        if kind in seen or len(seen) >= 3:
            continue
        seen.add(kind)
        small, sf = shrink(cases[i], kind, cnum)
        if not sf:
            small, sf = cases[i], f
        rc4, sl, _, _ = c08lib.run_c(vlib, cnum, [small])
        ctx.report("%s/n=%d" % (sf[0][0], small.n),
                   "%s on a %dx%d input (%s): %s" % (sf[0][0], small.n, small.n, small.tag, sf[0][1]),
                   {"case": small.to_json(), "case_line": small.line(), "failures": sf[:6],
                    "c_output": sl[0] if sl else None, "original_case": cases[i].to_json(),
                    "how": "echo '<case_line>' | build/C08/drv_num   (harness/C08/drv.c compiled against $VERIF_REPO/src); "
                           "lines are '<case> <opcode> items', doubles as hex bit patterns; opcodes in checks/C08.py OPNAME"},
                   found_input=True)

    # ---- evidence ----
    nontriv = set()
    dist_n, dist_tag = {}, {}
    for i, c in enumerate(cases[:len(m_lines)]):
        dist_n[c.n] = dist_n.get(c.n, 0) + 1
        t = c.tag.split("/")[0]
        dist_tag[t] = dist_tag.get(t, 0) + 1
        ok = any(l.startswith(("100 0 ", "200 0 ", "300 0 ")) for l in c_lines[i])
        if c.n >= 2 and ok:
            nontriv.add(c.line())
    swaps = sum(1 for l in c_lines for x in l if x.startswith("100 0 -1 "))
    ctx.count(evaluations=len(m_lines) + extra_eval, nontrivial=len(nontriv))
    ctx.cov["rule"] = ("evaluations = input matrices run through the C driver (each is run through up to 34 routines, "
                       "%d canonical lines compared with the model); distinct_nontrivial = distinct inputs of order >= 2 "
                       "on which at least one factorisation succeeded (so the whole derived-routine chain ran)" % nlines)
    ctx.cov["lines_compared"] = nlines
    ctx.cov["orders"] = {str(k): v for k, v in sorted(dist_n.items())}
    ctx.cov["classes"] = dist_tag
    ctx.cov["outcomes"] = st
    ctx.cov["plu_success_with_odd_permutation"] = swaps
    br = {"plu_no_exchange": 0, "plu_exchange": 0, "plu_sgndet_-1": 0, "plu_sgndet_+1": 0, "ldl_sgndet_-1": 0,
          "ldl_sgndet_+1": 0, "threshold_class_success": 0, "threshold_class_failure": 0}
    for i, c in enumerate(cases[:len(m_lines)]):
        thr = "threshold" in c.tag
        for l in c_lines[i]:
            w = l.split()
            if w[0] == "100" and w[1] == "0":
                br["plu_no_exchange" if [int(x) for x in w[3:3 + c.n]] == list(range(c.n)) else "plu_exchange"] += 1
            elif w[0] == "113":
                br["plu_sgndet_%+d" % int(w[1])] = br.get("plu_sgndet_%+d" % int(w[1]), 0) + 1
            elif w[0] == "210":
                br["ldl_sgndet_%+d" % int(w[1])] = br.get("ldl_sgndet_%+d" % int(w[1]), 0) + 1
            if thr and w[0] in ("100", "200", "300"):
                br["threshold_class_success" if w[1] == "0" else "threshold_class_failure"] += 1
    ctx.cov["branch_counts"] = br
    ctx.cov["measured_error_over_bound"] = {k: round(v, 4) for k, v in sorted(ratios.items())}
    ctx.cov["rounding_note"] = ("the componentwise rounding bounds of the property are MEASURED by the exact-rational oracle on "
                                "the C output (max observed error / textbook bound above, must stay <= 1); they are not proved. "
                                "The theorems are exact-arithmetic statements about the same Gallina term.")
    ctx.cov["oracle_cases"] = len(sel)
    nf = [i for i in range(len(m_lines)) if any(l.startswith(("100 0 ", "200 0 ", "300 0 ")) and
                                                   any(w[:3] in ("7ff", "fff") for w in l.split()[1:] if len(w) == 16)
                                                   for l in c_lines[i])]
    ctx.cov["success_with_nonfinite_factors"] = {
        "count": len(nf),
        "note": "finite inputs whose intermediate results overflow: the C code (and, bit for bit, the model) reports success "
                "with inf/NaN in the factors because 'x < A_REAL_MIN' is false for NaN and for inf pivots; overflow is outside "
                "the rounding model of the property, these cases are only compared bit-exactly and are not classified as violations",
        "example": cases[nf[0]].to_json() if nf else
        {"n": 3, "A": [1e-300, 0, 0, 0, 1, 0, 1e300, 1, 1], "routine": "a_real_llt", "observed": "rc=0, l[2][1]=NaN, l[2][2]=NaN"}}
    ctx.cov["sanitizer"] = "ASan+UBSan build ran the same cases: %s" % ("abort at case %s" % san_case if san_case is not None else "clean, identical output")
    for c in cases[len(extra_cases) + len(corpus_cases()):][:3] + cases[-2:]:
        ctx.sample({"tag": c.tag, "n": c.n, "mask": c.mask, "A": [c08lib.b2d(u) for u in c.A][:16]})
    ctx.log("total %.1fs" % (time.time() - t0))
    __import__("vglue").glue(ctx, "C08")   # glue around the modelled core: float / long double builds of the three families (differential tests, tools/vglue.py); linalg.h has no C++ members (scanned on every run)


def replay(ctx, path):
    """Replay: the case of the replay file is put in front of the corpus and the whole check is run again on
    the current $VERIF_REPO tree (so evidence stays complete); the case is a violation again iff the C code
    still fails the oracle on it."""
    o = json.loads(Path(path).read_text())
    rep = o.get("replay", {})
    extra = []
    for k in ("case", "original_case"):
        if isinstance(rep.get(k), dict) and "A_hex" in rep[k]:
            extra.append(c08lib.Case.from_json(rep[k]))
    run(ctx, extra_cases=extra)


META = {
    "text": "Rocq theorems over the reals (exact arithmetic) for EVERY order n and every input, by loop invariants on a model "
            "that indexes the in-place storage as the C does: the routines never leave their buffers; PLU success => p is a "
            "permutation, sign = its parity, |multipliers| <= 1, |u_ii| >= tiny, P*A = L*U, solve/inv/strided inv give A x = b "
            "and A X = I, det = sign*prod u_ii with lndet/sgndet agreeing; zero column / duplicated rows / vanishing pivot => "
            "failure; the analogous LDL^T (A = L D L^T, singular => failure) and Cholesky (A = L L^T, l_ii > 0, non-positive or "
            "small pivot => failure) families. PARTIAL (named _partial): residuals are exactly 0 over R; the floating-point "
            "componentwise rounding bounds are measured by an exact-rational oracle on the C output, and proved only where stated "
            "next. PROVED in the "
            "rounding model (same term at a NumOps whose add/sub/mul/div round with any rnd obeying |rnd x - x| <= eps|x| + eta, "
            "binary64 RNE with eps = 2^-53, eta = 2^-1075 by Flocq, overflow excluded), for every n with n*eps < 1, for the "
            "TRIANGULAR SOLVES (plu/ldl/llt lower and upper and their composition in plu/ldl/llt_solve on GIVEN factors): "
            "Higham Thm 8.5, componentwise residual |b - T x^|_r <= gamma_k (|T||x^|)_r + (3k + |t_rr|)(1 + gamma_k) eta with "
            "k <= n (k = r, n-r or r+1 by routine; gamma_k = k eps/(1 - k eps)), equivalently (T + dT) x^ = b + db exactly with "
            "|dT| <= gamma_k |T|, |db| = O(n) eta; AND for the three FACTORISATIONS themselves (coq/C08/RoundFactor.v, "
            "RoundFactor64.v, 13 theorems C08_llt/ldl/plu_backward_error[_uniform|_binary64], "
            "C08_plu_multipliers_monotone_rounding, C08_llt_factor_solve_stages, C08_llt_solve_end_to_end[_binary64]), for every order and every input on which the "
            "ROUNDED run returns success (its pivot tests and its pivot search see the rounded values; the run is also shown "
            "total and inside its buffers): Cholesky |A - L^ L^^T|_rc <= gamma_{n+1} (|L^||L^|^T)_rc + (3(n+1) + 2|l_cc| + eta)"
            "(1 + gamma_{n+1}) eta on the triangle the code reads (Higham Thm 10.3; cell-wise constants gamma_{c+1} below the "
            "diagonal, gamma_{r+2} on it; needs (n+1)*eps < 1 and eta^2 < (1-eps)^2 tiny, which makes every computed l_cc > 0 and "
            "holds in binary64 for tiny = DBL_MIN), LDL^T |A - L^ D^ L^^T|_rc <= gamma_n (|L^||D^||L^|^T)_rc + (3n + sum_{i<=c} "
            "|d_i|)(1 + gamma_n) eta with |d_c| >= tiny (cell-wise gamma_{c+2} / gamma_{c+1}), PLU with the permutation p the "
            "rounded run chooses |P A - L^ U^|_rc <= gamma_n (|L^||U^|)_rc + (3n + |u_cc|)(1 + gamma_n) eta for every cell (Higham "
            "Thm 9.3; cell-wise gamma_r / gamma_{c+1}), p a permutation, sign its parity, |u_cc| >= tiny, every multiplier = rnd x "
            "with |x| <= 1, hence |l_rc| <= 1 for every monotone odd rounding that fixes 1 (binary64 RNE) and <= 1 + eps + eta "
            "under the error model alone; a_real_llt followed by a_real_llt_solve stage by stage (factor against A, both "
            "substitutions against the computed factor) and in ONE statement (Higham Thm 10.4, needs (3n+1)*eps < 1): the computed "
            "x^ solves (A + dA) x^ = b + db exactly, A read as the symmetric matrix of its lower triangle, |dA|_rk <= gamma_{3n+1} "
            "(|L^||L^|^T)_rk + (3(n+1) + 2|l_mm| + eta)(1 + gamma_{n+1}) eta, |db| = O(n) eta explicit and 0 when eta = 0. "
            "The same ONE-statement form for PLU and LDL^T (coq/C08/RoundEndToEnd.v, RoundEndToEnd64.v, 6 theorems "
            "C08_plu_solve_end_to_end[_rows_of_PA|_binary64], C08_ldl_solve_end_to_end[_binary64], "
            "C08_ldl_upper_solve_perturbed_system; Higham Thm 9.4 and its LDL^T analogue; hypotheses: 3n*eps < 1, tiny > 0, buffer "
            "lengths, nothing else - the pivots are non-zero because the rounded factorisation returned 0): a_real_plu followed by "
            "a_real_plu_solve on the computed factors and the permutation p of the rounded run: (A + dA) x^ = b + db exactly, row "
            "by row of A, |dA[p[r]][c]| <= gamma_{3n} (|L^||U^|)_rc + (3n + |u_cc|)(1 + gamma_n) eta for all r, c < n with p a "
            "permutation of 0..n-1, i.e. |dA| <= gamma_{3n} P^T |L^||U^| + O(n) eta; a_real_ldl followed by a_real_ldl_solve: A read "
            "as the symmetric matrix of its lower triangle, |dA|_rk <= gamma_{3n} (|L^||D^||L^|^T)_rk + (3n + sum_{i<=min(r,k)} "
            "|d_i|)(1 + gamma_n) eta (a_real_ldl_upper, which divides first, is put in perturbed form (D L^T + dU) x^ = y + db for "
            "this); in both |db| is an explicit O(n) eta bound (weights |l_rj|, |u_jj| resp. |l_rc||d_c|) and db = 0 is proved for "
            "eta = 0; dA and db are explicit terms (no choice axiom). "
            "Non-vacuity: 2x2 runs with the inexact rounding v -> v(1 + 1/8) whose residuals are non-zero and below the bounds; the "
            "end-to-end theorems applied to those runs (3n*eps = 3/4), whose computed solutions are evaluated and are not the exact ones. "
            "NOT proved in the rounding model: the inverses, the determinants; "
            "these stay measured by the exact-rational oracle. Tie: the same "
            "polymorphic term at PrimFloat (vm_compute) vs the C bit for bit on all 34 routines incl. lndet (libm log logged "
            "via --wrap and supplied to the model). Differential test, not a theorem: the glue run (tools/vglue.py, "
            "harness/glue/cfg_C08.c) builds the three families for a_real = float, double and long double with ASan/UBSan and runs "
            "matrices constructed from dyadic factors (A = P^T L U, L D L^T, L L^T, orders 0..6, every intermediate of the documented "
            "algorithm exact in binary32 - checked with exact fractions) against exactly those factors, the exact rational solutions, "
            "inverses and determinants, exactly singular / non-positive inputs against the failure code, pivots on either side of "
            "A_REAL_MIN of each configuration, and full-mantissa matrices against the exact value within the rounding allowance of the "
            "configuration; every array is an exactly-sized pool block between guard bytes. "
            "LOOP TIE (harness/C08/TieLoop1.v .. TieLoop9.v, 40 theorems re-proved on every run): ALL 40 routines of src/linalg_plu.c, "
            "linalg_ldl.c and linalg_llt.c - the factorisations a_real_plu (partial pivoting: data-dependent pivot search, row swap "
            "through a_real_swap of src/math.c, permutation array, `*sign = -*sign`), a_real_ldl and a_real_llt with their early failure "
            "returns included, P, P_, L, U, D extraction, apply, forward and backward substitution plain and strided, solve, the inverses "
            "with their scratch vector, det (either sign), lndet, plu_sgndet and ldl_sgndet - are regenerated from the current sources "
            "with their 83 loops as Fixpoints (tools/c2arr.py) and proved equal to the model FactorDefs.v for every NumOps instance "
            "(through the same `adapt` as the unrolled tie) and EVERY order that is an a_uint value, every array of any length (an access "
            "outside: None on both sides); the running pointers of the C are carried as the closed-form indices of the model by the loop "
            "lemmas; signed int objects (the sign) are carried in Z with every result checked to be an int, so plu_sgndet is tied for "
            "every sign but INT_MIN (whose negation is undefined in C).",
    "note": "Trusted: Coq kernel/vm_compute with primitive floats and ints; real-number axioms listed by Print Assumptions; "
            "the 'same term, different NumOps record' argument between R and binary64 (the rounding-model theorems are about "
            "Rnd8_ops rnd tiny = exact operation followed by rnd with no overflow threshold; that a binary64 run without "
            "overflow/NaN computes exactly those values rests on RoundFlocq.prim_*_rnd64 operation by operation and is not "
            "composed into a theorem about whole F64_ops runs); running-pointer walks modelled by "
            "closed-form cell indices, a_uint as nat; hand-written model tied bit for bit on generated matrices (orders 1-12 "
            "quick, 1-24 thorough) and by the translator ties (unrolled: orders 0..4; loops as Fixpoints: every order), in which the "
            "translators tools/c2coq.py and tools/c2arr.py are trusted to read the C right - their output is proved equal to the model, "
            "not to the C. On finite inputs whose intermediates overflow the C reports success with inf/NaN "
            "factors (x < A_REAL_MIN is false for NaN): treated as outside the property's rounding model and counted in the evidence. "
            "The float and long double builds are not modelled in Rocq: they are covered by the glue run only (generated exact and "
            "well-conditioned matrices; lndet there is compared with a binary64 reference within a float-suited tolerance).",
    "technique": "Rocq proof over R (loop invariants P_k A = L_k R_k, permutation parity, triangular solves) + the LDL^T/Cholesky families and the permutation-free PLU routines re-translated on every run (orders 0..4, loops unrolled, callees inlined) and proved equal to the model for all entries + bit-exact primitive-float model vs C correspondence + exact-rational residual oracle + all 40 routines, the three factorisations (partial pivoting included) among them, re-translated with their loops as Fixpoints and proved equal to the model for every order",
}
