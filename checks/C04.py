"""C04 — vector (src/vec.c) and fixed buffer (src/buf.c) as indexable sequences, a_swap (src/a.c).

run(ctx):
  1. proves coq/Properties_C04.v (full .vo, Print Assumptions parsed);
  2. tie: generated histories are executed by the C code of the CURRENT tree (harness/C04/drv.c, ASan+UBSan,
     allocator shim with a fault schedule) and by the extracted Gallina model (coq/C04/VecDefs.v through
     harness/C04/mdrv.ml); the canonical lines (return value / returned offset and what it points to /
     destructor calls / allocator requests / siz,num,mem,contents / verdict on all inline accessors / ledger)
     are compared line by line.  Every public function of vec.h / buf.h is called: containers are built by
     new/die and by a_alloc + ctor / dtor + a_alloc (case lines vc/vx/bc/bx), pushes and pulls also go through
     the aliases a_vec_push / a_vec_pull / a_buf_push / a_buf_pull (operations push / pull), and after EVERY
     operation the driver evaluates every accessor (a_vec_ptr/siz/num/mem, a_vec_at_/at/of/top_/top/end_/end
     and the a_buf_* ones; unchecked ones where their precondition holds) against the fields: token acc=ok or
     acc=BAD:<function>:<got>:<want>;
  3. search oracle: class Spec below is the property itself (Python list semantics, independent of the model)
     evaluated on what the C code printed; crashes (ASan/UBSan) and hangs are failing inputs as well.
     Failing histories are shrunk by delta debugging and written to replays/C04/.
"""
import json
import os
import random
import re
import sys
import time
from pathlib import Path

try:
    from tools import vlib
except ImportError:  # pragma: no cover
    import vlib
try:
    from tools import vvec
except ImportError:  # pragma: no cover
    import vvec

TRANSLATOR_TIE_TEXT = (
    "Second tie, translator (tools/c2vec.py, run on the CURRENT sources on every run; harness/C04/TieVec.v, TieVecDtor.v, "
    "TieVecLoops.v; 70 tie theorems, all closed under the global context): 70 functions are regenerated statement by statement "
    "(header fields in SSA style, every a_size operation mod 2^64, storage pointers as byte offsets, every memmove / memcpy / "
    "a_swap / destructor / comparison / copy call through the model's checked accessors, a_alloc through the model's allocator, "
    "every loop a Fixpoint on its own fuel) and each is proved EQUAL to the definition of VecDefs.v / AccDefs.v that vec_step / "
    "buf_step are built from (lemmas link_*): all of vec.c except a_vec_swap (a_vec_new/ctor/dtor/die, setm with its growth loop "
    "on fuel 128 and a_size_up/a_size_down as & ~7, setn, setz, sort, sort_fore, sort_back, push_sort, search, insert, "
    "push_fore/back, remove, pull_fore/back, store, erase, inc_/dec_), all of buf.c (the same list; sizeof(a_buf) computed from "
    "the structure), the 21 inline accessors and 4 aliases of vec.h / buf.h, and the byte loop of a_swap (src/a.c) against the "
    "model's sl_swap. 50 statements are for EVERY state - invariant not assumed - and argument (a_vec_ctor / a_buf_ctor: for a "
    "structure that owns no storage / a fresh block). The others under exactly the part of the invariant they need, each part "
    "of arr_inv / vec_inv, which VecProofs.wstep_ok / history_ok prove for every reachable state: destructor loops of "
    "setn/setz/erase/dtor/die (only when a destructor is given): 0 < siz, num <= slots owned, siz * slots < 2^64, fuel > num "
    "(vector setn/setz/dtor/die: vec_inv before the capacity step); sort_fore/sort_back: the same three; a_vec_sort: num <= "
    "slots; store with a copy callback: 0 < siz, siz * count < 2^64, fuel > count (and count = length of the source array in "
    "both store theorems); a_swap: every slot has siz bytes, storage < 2^64 bytes, pointers inside or one past it, fuel > count. "
    "Correspondence-only (not regenerated): a_vec_swap (structure assignment between two containers).")

META = {
    "text": "Rocq theorems for ALL finite operation histories (two vectors incl. a_vec_swap, one fixed buffer, new/die) over "
            "EVERY element size >= 0, EVERY index and count in [0, 2^64) (64-bit wrap-around written into the model) and every "
            "allocator fault schedule: the invariants (siz >= 1, num <= mem, mem slots really owned, byte size < 2^63) are "
            "preserved, no model error (out-of-block read/write, release of a non-live block) is reachable, and every step has "
            "exactly the abstract-sequence semantics (result value, contents, destructor calls, capacity) of push/pull at either "
            "end, insert/remove, store/erase, setn/setm/setz, sort, sort_fore/sort_back (both the bsearch and the bubble path), "
            "push_sort, search, at/of/top/end; every returned element pointer is a slot inside owned storage; removal returns "
            "the removed element intact via a_swap (rotation lemma); sorted-insert variants keep a sorted sequence sorted with "
            "the element added and nothing lost (permutation); the fixed buffer refuses what does not fit and leaves the state "
            "unchanged; a_vec_setm growth policy meets the request or reports A_OMEMORY unchanged. The guards repaired by the "
            "fix: commits are characterised (..._fixed) and the original ones refuted by witness (..._refuted). Tie: extracted "
            "model vs the C (ASan+UBSan, allocator shim with fault schedule): return value, returned offset and element behind "
            "it, destructor calls, allocator requests, siz/num/mem/contents and ledger after EVERY operation; every public "
            "function of vec.h/buf.h is called (ctor/dtor as well as new/die, the push/pull aliases, and all field and "
            "element accessors, checked and unchecked, evaluated after every operation and compared with the fields; the "
            "unchecked ones are proved to stay inside owned storage without 64-bit wrap under the invariant). "
            + TRANSLATOR_TIE_TEXT,
    "note": "Trusted: Coq kernel; extraction (ExtrOcamlBasic only) + harness/C04/mdrv.ml, drv.c and its allocator shim; "
            "hand-written model coq/C04/VecDefs.v tied by differential testing on the generated histories only (sizes 0-13, "
            "indices aimed at 0, num-1, num, num+1, 2^63, 2^64-1 and the wrap points); memcpy/memmove as list splices, "
            "realloc as a ledger that always moves, qsort as insertion sort (proved a sorted permutation; the harness "
            "comparator is proved a total order whose equivalence is identity, so any correct qsort gives the same result), "
            "bsearch as lookup; bytes of slots beyond num are not compared; memory safety of the C observed by ASan/UBSan, "
            "proved only of the model. Translator tools/c2vec.py: trusted to read the C right (clang JSON AST -> Gallina over "
            "the model's own checked accessors; pointers into the storage as byte offsets from its base; realloc = the model's "
            "resize_slots, a released block keeps its slot list; a destructor call = a checked read appended to a log, the "
            "comparison callback = a Gallina function of the two elements, the copy callback = element copy returning 0; "
            "qsort / bsearch = the model's insertion sort / lookup; C division by zero not flagged; left-to-right evaluation, "
            "unsequenced operands refused); what its output says about the model is proved on every run. No axioms.",
    "technique": "Rocq proof (invariant + refinement to an abstract sequence by induction over histories, 64-bit wrap explicit) "
                 "+ extracted-model vs C correspondence under ASan/UBSan",
}

PID = "C04"
H = vlib.VERIF / "harness" / PID
CORPUS = vlib.VERIF / "corpus" / PID
M64 = 1 << 64
SIZE_MAX = M64 - 1
LIMIT = 0x10000            # allocator shim refuses larger requests
SMALL_LIMIT = 0x1000       # ... in half of the generated histories
SIZES = [0, 1, 2, 3, 4, 8, 13]
ELEM_MAX = 65536           # harness/C04/drv.c: above this element size no element byte is ever read or written
# element sizes for which siz * capacity leaves 64 bits (or a_diff) after a handful of elements
HUGE_SIZES = sorted(set(b + d for b in (SIZE_MAX // 8, SIZE_MAX // 4, SIZE_MAX // 2, SIZE_MAX // 16, SIZE_MAX // 3,
                                        1 << 32, 1 << 33, 1 << 48, 1 << 60, 1 << 61, 1 << 62, 1 << 63,
                                        SIZE_MAX - 2)
                        for d in (-2, -1, 0, 1, 2) if ELEM_MAX < b + d <= SIZE_MAX))


# ============================================================================ the property (search oracle)
class Bad(Exception):
    """The observed behaviour violates the property."""


def is_sorted(seq):
    return all(seq[i] <= seq[i + 1] for i in range(len(seq) - 1))


def vec_max_cap(siz):
    return (((1 << 63) - 1) // siz) & ~7


def vec_grow(mem0, req, siz):
    """Nominal growth policy of a_vec_setm (used only to AIM the generator and to classify)."""
    mx = vec_max_cap(siz)
    if req <= mem0:
        return mem0
    if req > mx:
        return None
    m = mem0
    while True:
        m += (m >> 1) + 1
        if m >= req:
            break
    m = (m + 7) & ~7
    return min(m, mx)


class Arr:
    """Abstract container: element size, sequence of elements, capacity (capacity is observed, not specified,
    for the vector; specified for the buffer)."""

    def __init__(self, kind, siz, mem, hasptr):
        self.kind = kind          # "v" or "b"
        self.siz = siz if siz else 1
        self.seq = []
        self.mem = mem
        self.hasptr = hasptr

    def copy(self):
        a = Arr(self.kind, self.siz, self.mem, self.hasptr)
        a.seq = list(self.seq)
        return a


def fit(v, siz):
    if siz > ELEM_MAX:
        return None            # the driver never touches such an element: it prints "?"
    b = bytes.fromhex(v) if v not in ("-", "_") else b""
    return (b + bytes(siz))[:siz]


def unhex(x):
    return None if x == "?" else bytes.fromhex(x)


def hx(x):
    return "?" if x is None else x.hex()


def srt(l):
    return sorted(l, key=hx)


def parse_line(ln):
    """Canonical line -> dict(ret=..., dtor=[bytes], ev=[str], states={tag: None | dict}, ledger=(c, bytes))."""
    m = re.match(r"^(\S+) d=\[([^\]]*)\] e=\[([^\]]*)\](.*) L=(\d+):(\d+)$", ln)
    if not m:
        raise Bad("unparsable line: %r" % ln[:200])
    ret, d, e, st, lc, lb = m.groups()
    states = {}
    acc = {}
    for sm in re.finditer(r" (v0|v1|b):(nil|z=(\d+),n=(\d+),m=(\d+),p=(\d),o=(\d+|\?)\[([^\]]*)\](?: acc=(\S+))?)", st):
        tag = sm.group(1)
        if sm.group(2) == "nil":
            states[tag] = None
        else:
            states[tag] = {"z": int(sm.group(3)), "n": int(sm.group(4)), "m": int(sm.group(5)),
                           "p": int(sm.group(6)), "o": None if sm.group(7) == "?" else int(sm.group(7)),
                           "c": [unhex(x) for x in sm.group(8).split(",")] if sm.group(8) else []}
            acc[tag] = sm.group(9)
    xm = re.search(r" x:z=(\d+),n=(\d+),m=(\d+),p=(\d)", st)
    left = {"z": int(xm.group(1)), "n": int(xm.group(2)), "m": int(xm.group(3)), "p": int(xm.group(4))} if xm else None
    r = {"raw": ret}
    if ret == "void":
        r["k"] = "void"
    elif ret.startswith("rc="):
        r["k"] = "rc"
        r["rc"] = int(ret[3:])
    elif ret == "ptr=NULL":
        r["k"] = "ptr"
        r["off"] = None
    elif ret.startswith("ptr="):
        off, c = ret[4:].split(":")
        r["k"] = "ptr"
        r["off"] = int(off)
        r["c"] = None if c == "?" else bytes.fromhex(c)
    elif ret.startswith("found="):
        r["k"] = "found"
        r["c"] = None if ret[6:] == "none" else bytes.fromhex(ret[6:])
    else:
        raise Bad("implementation printed %r" % ret)
    return {"ret": r, "dtor": [unhex(x) for x in d.split(",")] if d else [],
            "ev": e.split(",") if e else [], "states": states, "ledger": (int(lc), int(lb)),
            "acc": acc, "left": left}


def check_acc(obs):
    """The accessor verdict of every container printed on the line: a disagreement between an inline accessor of
    vec.h / buf.h and the fields of the structure is a violation on its own (message starts with 'accessor <fn>')."""
    for tag, a in sorted(obs["acc"].items()):
        if a == "ok":
            continue
        if a is None:
            raise Bad("accessor verdict missing for %s" % tag)
        m = re.match(r"BAD:(a_\w+):([^:]*):([^:]*)$", a)
        if not m:
            raise Bad("accessor verdict unreadable for %s: %r" % (tag, a))
        raise Bad("accessor %s returned %s on %s (siz=%d num=%d mem=%d), the structure implies %s"
                  % (m.group(1), m.group(2), tag, obs["states"][tag]["z"], obs["states"][tag]["n"],
                     obs["states"][tag]["m"], m.group(3)))


# case lines / operations that reach the same library code through another public entry point
ENTRY = {"vc": "vn", "vx": "vd", "bc": "bn", "bx": "bd"}
ENTRY_FN = {"vn": "a_vec_new", "vc": "a_vec_ctor", "vd": "a_vec_die", "vx": "a_vec_dtor",
            "bn": "a_buf_new", "bc": "a_buf_ctor", "bd": "a_buf_die", "bx": "a_buf_dtor"}
OP_ALIAS = {"push": "pushb", "pull": "pullb"}


class Spec:
    """Executable statement of property C04 evaluated on the implementation's output.
    check(op_tokens, parsed_line) raises Bad(...) when the observation contradicts the property and otherwise
    advances the abstract state.  In predict mode (obs=None) it advances with the nominal behaviour (used by
    the generator to aim at boundaries)."""

    def __init__(self, limit=LIMIT):
        self.v = [None, None]
        self.b = None
        self.limit = limit
        self.live = 0             # ledger: expected number of live blocks

    # -------------------------------------------------------------- helpers
    def _expect_state(self, a, st, what):
        if st is None:
            raise Bad("%s: container disappeared" % what)
        if st["n"] > st["m"]:
            raise Bad("%s: element count %d exceeds capacity %d" % (what, st["n"], st["m"]))
        if st["z"] != a.siz:
            raise Bad("%s: element size is %d, expected %d" % (what, st["z"], a.siz))
        # capacity describes real storage: siz * mem (exact, no 64-bit wrap) fits the block the allocator handed out
        if st["o"] is None:
            raise Bad("%s: the element storage is not a live block of the allocator" % what)
        if st["z"] * st["m"] > st["o"]:
            raise Bad("%s: capacity %d x element size %d = %d bytes, but the storage owned is %d bytes"
                      % (what, st["m"], st["z"], st["z"] * st["m"], st["o"]))
        shown = a.seq if a.siz <= ELEM_MAX else a.seq[:16]      # elements too large to touch print as "?", 16 at most
        if st["n"] != len(a.seq) or st["c"] != shown:
            raise Bad("%s: contents %s (num=%d) differ from the abstract sequence %s"
                      % (what, [hx(x) for x in st["c"]], st["n"], [hx(x) for x in a.seq]))

    def _check_ptr(self, a, st, r, what, slot=None, content=None, notlive=False, null=False):
        if r["k"] != "ptr":
            raise Bad("%s: expected a pointer result, got %s" % (what, r["raw"]))
        if null:
            if r["off"] is not None:
                raise Bad("%s: expected NULL, got offset %d" % (what, r["off"]))
            return
        if r["off"] is None:
            raise Bad("%s: returned NULL, expected an element pointer" % what)
        off = r["off"]
        if off % a.siz or off // a.siz >= st["m"]:
            raise Bad("%s: returned pointer (offset %d) is not an element slot inside the %d*%d bytes owned"
                      % (what, off, st["m"], a.siz))
        if st["o"] is None or off + a.siz > st["o"]:
            raise Bad("%s: the element behind the returned pointer (offset %d, %d bytes) is not inside the %s bytes "
                      "of storage owned" % (what, off, a.siz, st["o"]))
        if slot is not None and off != slot * a.siz:
            raise Bad("%s: returned offset %d, expected slot %d (offset %d)" % (what, off, slot, slot * a.siz))
        if notlive and off // a.siz < st["n"]:
            raise Bad("%s: returned pointer aliases live element %d" % (what, off // a.siz))
        if content is not None and r.get("c") != content:
            raise Bad("%s: element behind the returned pointer is %s, expected %s"
                      % (what, hx(r.get("c")), hx(content)))

    # -------------------------------------------------------------- one operation
    def step(self, t, obs=None):
        """t: tokens of the case line.  obs: parsed output line or None (predict)."""
        k = ENTRY.get(t[0], t[0])
        fn = ENTRY_FN.get(t[0], t[0])
        if obs is not None:
            check_acc(obs)
        if k == "vn":
            w = int(t[1])
            if self.v[w] is None:
                ok = True
                if obs is not None:
                    ok = not any(e.endswith("-") for e in obs["ev"])
                    if (obs["states"].get("v%d" % w) is not None) != ok:
                        raise Bad("%s: result does not match the allocator's answer" % fn)
                if ok:
                    self.v[w] = Arr("v", int(t[2], 16), 0, False)
                    self.live += 1
                    st = obs["states"].get("v%d" % w) if obs is not None else None
                    if st is not None and (st["m"] != 0 or st["p"]):
                        raise Bad("%s: a fresh vector reports capacity %d, storage %d" % (fn, st["m"], st["p"]))
            if obs is not None and self.v[w] is not None:
                self._expect_state(self.v[w], obs["states"].get("v%d" % w), fn)
            return
        if k == "vd":
            w = int(t[1])
            a = self.v[w]
            if a is not None:
                if obs is not None:
                    exp = list(reversed(a.seq)) if t[2] == "1" else []
                    if srt(obs["dtor"]) != srt(exp):
                        raise Bad("%s: destructor ran on %s, expected %s"
                                  % (fn, [hx(x) for x in obs["dtor"]], [hx(x) for x in exp]))
                    if "BAD" in obs["ev"]:
                        raise Bad("%s: freed a block that is not live" % fn)
                    if t[0] == "vx":
                        lf = obs["left"]
                        if lf is None or lf["n"] or lf["m"] or lf["p"]:
                            raise Bad("a_vec_dtor: the structure is left with %s, expected no elements, no capacity, "
                                      "no storage" % (lf,))
                self.live -= 2 if a.hasptr else 1
                self.v[w] = None
                if obs is not None and obs["ledger"][0] != self.live:
                    raise Bad("%s: %d blocks live afterwards, expected %d" % (fn, obs["ledger"][0], self.live))
            return
        if k == "vs":
            if self.v[0] is not None and self.v[1] is not None:
                self.v[0], self.v[1] = self.v[1], self.v[0]
                if obs is not None:
                    self._expect_state(self.v[0], obs["states"].get("v0"), "a_vec_swap lhs")
                    self._expect_state(self.v[1], obs["states"].get("v1"), "a_vec_swap rhs")
                    self.v[0].mem = obs["states"]["v0"]["m"]
                    self.v[1].mem = obs["states"]["v1"]["m"]
            return
        if k == "bn":
            if self.b is None:
                siz = int(t[1], 16) or 1
                num = int(t[2], 16)
                ok = 24 + siz * num <= self.limit
                if obs is not None:
                    ok = not any(e.endswith("-") for e in obs["ev"])
                    if (obs["states"].get("b") is not None) != ok:
                        raise Bad("%s: result does not match the allocator's answer" % fn)
                    if ok and obs["ev"] and obs["ev"][0] != "M%d+" % (24 + siz * num):
                        raise Bad("%s(%d,%d): requested %s, needs %d bytes"
                                  % (fn, int(t[1], 16), num, obs["ev"][0], 24 + siz * num))
                if ok:
                    self.b = Arr("b", siz, num, True)
                    self.live += 1
            if obs is not None and self.b is not None:
                self._expect_state(self.b, obs["states"].get("b"), fn)
                if obs["states"]["b"]["m"] != self.b.mem:
                    raise Bad("%s: capacity %d, expected %d" % (fn, obs["states"]["b"]["m"], self.b.mem))
            return
        if k == "bd":
            a = self.b
            if a is not None:
                if obs is not None:
                    exp = a.seq if t[1] == "1" else []
                    if srt(obs["dtor"]) != srt(exp):
                        raise Bad("%s: destructor ran on %s" % (fn, [hx(x) for x in obs["dtor"]]))
                    if "BAD" in obs["ev"]:
                        raise Bad("%s: freed a block that is not live" % fn)
                    if t[0] == "bx":
                        lf = obs["left"]
                        if lf is None or lf["n"] or lf["m"] != a.mem or lf["z"] != a.siz:
                            raise Bad("a_buf_dtor: the structure is left with %s, expected no elements, capacity %d, "
                                      "element size %d" % (lf, a.mem, a.siz))
                self.live -= 1
                self.b = None
                if obs is not None and obs["ledger"][0] != self.live:
                    raise Bad("%s: %d blocks live afterwards, expected %d" % (fn, obs["ledger"][0], self.live))
            return
        if k == "v":
            w = int(t[1])
            a = self.v[w]
            if a is None:
                return
            if obs is not None:
                # the vector never asks the allocator for more bytes than a_diff can represent
                for e in obs["ev"]:
                    m = re.match(r"[MR](\d+)[+-]$", e)
                    if m and int(m.group(1)) >= 1 << 63:
                        raise Bad("a_vec_%s(%s): asked the allocator for %s bytes, more than a_diff (2^63-1) can "
                                  "represent" % (t[2], ",".join(t[3:]), m.group(1)))
            self.op(a, t[2:], obs, obs["states"].get("v%d" % w) if obs else None)
            return
        if k == "b":
            if self.b is None:
                return
            self.op(self.b, t[1:], obs, obs["states"].get("b") if obs else None)
            return
        raise Bad("unknown case line %r" % (t,))

    # capacity step: returns True if the operation may proceed
    def _capacity(self, a, need, obs, st, what):
        """need: required capacity (already mod 2^64).  Vector: grows; buffer: refuses."""
        if a.kind == "b":
            return need <= a.mem
        if need <= a.mem:
            if obs is not None and obs["ev"]:
                raise Bad("%s: allocator called although capacity %d suffices for %d" % (what, a.mem, need))
            return True
        if obs is None:
            nm = vec_grow(a.mem, need, a.siz)
            if nm is None or nm * a.siz > self.limit:
                return False
            a.mem = nm
            if not a.hasptr:
                a.hasptr = True
                self.live += 1
            return True
        failed = any(e.endswith("-") for e in obs["ev"])
        if failed or (need > vec_max_cap(a.siz) and not obs["ev"]):
            return False                       # a refused/failed growth: the op must report failure
        if not obs["ev"]:
            raise Bad("%s: capacity %d does not suffice for %d but no allocation was requested"
                      % (what, a.mem, need))
        if st is None or st["m"] < need:
            raise Bad("%s: capacity after growth is %s, %d needed" % (what, st and st["m"], need))
        m = re.match(r"[MR](\d+)\+$", obs["ev"][-1])
        if not m or int(m.group(1)) != st["m"] * a.siz:
            raise Bad("%s: capacity %d x size %d but the block requested is %s" % (what, st["m"], a.siz, obs["ev"][-1]))
        a.mem = st["m"]
        if not a.hasptr:
            a.hasptr = True
            self.live += 1
        return True

    def op(self, a, t, obs, st):
        o = OP_ALIAS.get(t[0], t[0])           # a_vec_push = a_vec_push_back, a_vec_pull = a_vec_pull_back
        r = obs["ret"] if obs else None
        if obs is not None and st is None:
            raise Bad("container state missing in the output")
        pre = a.copy()
        n = len(a.seq)
        name = ("a_buf_" if a.kind == "b" else "a_vec_") + t[0]
        what = "%s(%s)" % (name, ",".join(t[1:]))

        def want_rc(rc):
            if obs is not None and (r["k"] != "rc" or r["rc"] != rc):
                raise Bad("%s: returned %s, expected rc=%d" % (what, r["raw"], rc))

        def no_dtor():
            if obs is not None and obs["dtor"]:
                raise Bad("%s: destructor ran on %s" % (what, [hx(x) for x in obs["dtor"]]))

        def want_dtor(exp, flag):
            if obs is not None:
                exp = exp if flag else []
                if srt(obs["dtor"]) != srt(exp):
                    raise Bad("%s: destructor ran on %s, expected %s"
                              % (what, [hx(x) for x in obs["dtor"]], [hx(x) for x in exp]))

        def refused_ptr():
            if obs is not None:
                self._check_ptr(a, st, r, what, null=True)

        if o == "setm":
            mem = int(t[1], 16)
            if a.kind == "b":
                need_bytes = 24 + a.siz * mem
                ok = need_bytes <= self.limit
                if obs is not None:
                    ok = bool(obs["ev"]) and obs["ev"][-1].endswith("+")
                    if ok and obs["ev"][-1] != "R%d+" % need_bytes:
                        raise Bad("%s: block requested is %s, %d bytes needed" % (what, obs["ev"][-1], need_bytes))
                    want_rc(0 if ok else 4)
                if ok:
                    a.mem = mem
                    a.seq = a.seq[:mem]
            else:
                ok = self._capacity(a, mem, obs, st, what)
                want_rc(0 if ok else 4)
            no_dtor()
        elif o == "setn":
            num = int(t[1], 16)
            fill = fit(t[3], a.siz)
            if a.kind == "b":
                num = min(num, a.mem)
                ok = True
                if obs is not None and r["k"] != "void":
                    raise Bad("%s: unexpected result %s" % (what, r["raw"]))
            else:
                ok = self._capacity(a, num, obs, st, what)
                want_rc(0 if ok else 4)
            if ok:
                want_dtor(a.seq[num:], t[2] == "1")
                a.seq = a.seq[:num] + [fill] * (num - n)
            else:
                no_dtor()
        elif o == "setz":
            z = int(t[1], 16) or 1
            want_dtor(a.seq, t[2] == "1")
            a.mem = a.mem * a.siz // z
            a.siz = z
            a.seq = []
            if obs is not None and st is not None and st["m"] != a.mem:
                raise Bad("%s: capacity %d afterwards, the storage holds %d elements of the new size"
                          % (what, st["m"], a.mem))
        elif o == "sort":
            a.seq = sorted(a.seq)
            no_dtor()
        elif o in ("sortf", "sortb"):
            no_dtor()
            if n > 1:
                rest = a.seq[1:] if o == "sortf" else a.seq[:-1]
                if is_sorted(rest):
                    a.seq = sorted(a.seq)      # sorted, the new element added, nothing lost (order is total)
                elif obs is not None:
                    if st is None or sorted(st["c"]) != sorted(a.seq):
                        raise Bad("%s: elements were lost or invented: %s -> %s"
                                  % (what, [hx(x) for x in a.seq], st and [hx(x) for x in st["c"]]))
                    a.seq = list(st["c"])      # precondition not met: any permutation is accepted
                else:
                    a.seq = model_sort_one(a, o)
        elif o == "pushs":
            key = fit(t[1], a.siz)
            if self._capacity(a, (n + 1) % M64, obs, st, what):
                if is_sorted(a.seq):
                    import bisect
                    i = bisect.bisect_right(a.seq, key)
                    a.seq = a.seq[:i] + [key] + a.seq[i:]
                    if obs is not None:
                        # any slot that keeps the sequence sorted is acceptable (equal elements are identical)
                        self._check_ptr(a, st, r, what, content=key)
                        j = r["off"] // a.siz
                        if j > n or pre.seq[:j] + [key] + pre.seq[j:] != a.seq:
                            raise Bad("%s: inserted at slot %d, which does not keep the sequence sorted" % (what, j))
                elif obs is not None:
                    self._check_ptr(a, st, r, what, content=key)
                    j = r["off"] // a.siz
                    if j > n:
                        raise Bad("%s: returned slot %d beyond the end %d" % (what, j, n))
                    a.seq = a.seq[:j] + [key] + a.seq[j:]
                else:
                    a.seq = model_push_sort(a.seq, key)
            else:
                refused_ptr()
        elif o == "search":
            key = fit(t[1], a.siz)
            if obs is not None:
                if r["k"] != "found":
                    raise Bad("%s: unexpected result %s" % (what, r["raw"]))
                if r["c"] is not None and r["c"] != key:
                    raise Bad("%s: found %s which is not the key" % (what, r["c"].hex()))
                if is_sorted(a.seq) and (r["c"] is not None) != (key in a.seq):
                    raise Bad("%s: %s although the key is %s the sorted sequence"
                              % (what, r["raw"], "in" if key in a.seq else "not in"))
        elif o in ("ins", "pushf", "pushb"):
            if o == "ins":
                idx, v = int(t[1], 16), fit(t[2], a.siz)
            elif o == "pushf":
                idx, v = 0, fit(t[1], a.siz)
            else:
                idx, v = n, fit(t[1], a.siz)
            if self._capacity(a, (n + 1) % M64, obs, st, what):
                i = idx if idx < n else n
                a.seq = a.seq[:i] + [v] + a.seq[i:]
                if obs is not None:
                    self._check_ptr(a, st, r, what, slot=i, content=v)
            else:
                refused_ptr()
            no_dtor()
        elif o in ("rem", "pullf", "pullb"):
            idx = int(t[1], 16) if o == "rem" else (0 if o == "pullf" else SIZE_MAX)
            no_dtor()
            if n == 0:
                refused_ptr()
            else:
                i = idx if idx < n - 1 else n - 1
                x = a.seq.pop(i)
                if obs is not None:
                    # removal returns the removed element intact, in owned storage, outside the live part
                    self._check_ptr(a, st, r, what, content=x, notlive=True)
        elif o == "store":
            idx = int(t[1], 16)
            vs = [fit(x, a.siz) for x in t[2].split(",")] if t[2] != "-" else []
            if self._capacity(a, (n + len(vs)) % M64, obs, st, what):
                i = idx if idx < n else n
                a.seq = a.seq[:i] + vs + a.seq[i:]
                want_rc(0)
            else:
                want_rc(3 if a.kind == "b" else 4)
            no_dtor()
        elif o == "erase":
            idx, cnt = int(t[1], 16), int(t[2], 16)
            if idx < n:
                gone = a.seq[idx:idx + cnt]
                a.seq = a.seq[:idx] + a.seq[idx + cnt:]
                want_rc(0)
                want_dtor(gone, t[3] == "1")
            else:
                want_rc(3)
                no_dtor()
        elif o == "at":
            idx = int(t[1], 16)
            if obs is not None:
                if idx < st["m"]:
                    self._check_ptr(a, st, r, what, slot=idx, content=a.seq[idx] if idx < n else None)
                else:
                    refused_ptr()
        elif o == "of":
            idx = int(t[1], 16)
            kk = idx if idx < (1 << 63) else (idx + n) % M64
            if obs is not None:
                if kk < st["m"]:
                    self._check_ptr(a, st, r, what, slot=kk, content=a.seq[kk] if kk < n else None)
                else:
                    refused_ptr()
        elif o == "top":
            if obs is not None:
                if n:
                    self._check_ptr(a, st, r, what, slot=n - 1, content=a.seq[-1])
                else:
                    refused_ptr()
        elif o == "end":
            if obs is not None:
                if a.kind == "v" and not st["p"]:
                    refused_ptr()
                elif r["k"] != "ptr" or r["off"] != n * a.siz:
                    raise Bad("%s: returned %s, expected offset %d" % (what, r["raw"], n * a.siz))
        else:
            raise Bad("unknown operation %r" % o)
        if obs is not None:
            self._expect_state(a, st, what)
            if a.kind == "b" and st["m"] != a.mem:
                raise Bad("%s: buffer capacity changed from %d to %d" % (what, a.mem, st["m"]))
            if a.kind == "v":
                if st["m"] < pre.mem and o != "setz":
                    raise Bad("%s: vector capacity shrank from %d to %d" % (what, pre.mem, st["m"]))
                a.mem = st["m"]
                a.hasptr = bool(st["p"])


def model_sort_one(a, o):
    """Nominal result of sort_fore / sort_back on an UNSORTED rest (prediction only, never an expectation)."""
    return list(a.seq)


def model_push_sort(seq, key):
    return seq + [key]


def check_history(case_lines, out_lines, limit=LIMIT):
    """Evaluate the property on one history.  Returns None or (op_index, message)."""
    sp = Spec(limit)
    j = 0
    for i, ln in enumerate(case_lines):
        t = ln.split()
        if t and t[0] == "H" and len(t) > 1:
            sp.limit = int(t[1], 16)
        if not t or t[0] == "H":
            continue
        if j >= len(out_lines):
            return (i, "no output for this operation (the run stopped here)")
        try:
            obs = parse_line(out_lines[j])
            sp.step(t, obs)
        except Bad as e:
            return (i, str(e))
        j += 1
    return None


# ============================================================================ generator
def rnd_elem(rng, siz, mode):
    if mode == 0:      # few distinct values: duplicates, ties
        return bytes([rng.choice((0, 1, 2, 255))] * 1 + [0] * (siz - 1))[:siz].hex()
    if mode == 1:      # differ in the last byte only
        return (bytes(siz - 1) + bytes([rng.randrange(256)])).hex()
    return bytes(rng.randrange(256) for _ in range(siz)).hex()


def pick_idx(rng, n, m):
    c = rng.random()
    if c < 0.55:
        cands = [0, 1, n // 2, max(n - 1, 0), n, n + 1, m, max(n - 2, 0)]
        return rng.choice(cands)
    if c < 0.75:
        return rng.randrange(0, n + 2)
    return rng.choice([SIZE_MAX, SIZE_MAX - 1, 1 << 63, (1 << 63) - 1, (1 << 32), M64 - n if n else 5,
                       (M64 - n - 1) % M64, m + 1, 1 << 62])


def pick_cnt(rng, n, idx):
    c = rng.random()
    room = max(n - idx, 0) if idx < M64 else 0
    if c < 0.6:
        return rng.choice([0, 1, 2, max(room - 1, 0), room, room + 1, n])
    return rng.choice([SIZE_MAX, SIZE_MAX - 1, (M64 - idx) % M64, (M64 - idx + 1) % M64, 1 << 63, 1 << 62,
                       (M64 - idx - 1) % M64])


def gen_history(rng, nops, faulty=False):
    """One history: list of case lines (first is the H line)."""
    # allocator limit of the history.  Requests aimed exactly AT the limit succeed and leave limit / siz elements,
    # which the list-based model fills in quadratic time: they are only made under the small limit.
    lim = rng.choice((LIMIT, SMALL_LIMIT))
    sp = Spec(lim)
    sched = "-"
    if faulty:
        sched = "".join("0" if rng.random() < 0.25 else "1" for _ in range(rng.randrange(1, 30)))
    lines = ["H %x %s" % (lim, sched)]
    emode = rng.randrange(3)
    focus = rng.random()

    def emit(ln):
        lines.append(ln)
        try:
            sp.step(ln.split(), None)      # nominal prediction (fault schedules make it drift: only the aim suffers)
        except Bad:
            pass

    def cur(w):
        return sp.b if w == "b" else sp.v[w]

    # the same library code through either public entry point: new / ctor, die / dtor, push_back / push, pull_back / pull
    def VN():
        return rng.choice(("vn", "vc"))

    def VD():
        return rng.choice(("vd", "vx"))

    def BN():
        return rng.choice(("bn", "bc"))

    def BD():
        return rng.choice(("bd", "bx"))

    def PUSHB():
        return rng.choice(("pushb", "pushb", "push"))

    def PULLB():
        return rng.choice(("pullb", "pull"))

    def prefix(w):
        return "b" if w == "b" else "v %d" % w

    # set-up
    if focus < 0.7:
        emit("%s 0 %x" % (VN(), rng.choice(SIZES)))
        if rng.random() < 0.3:
            emit("%s 1 %x" % (VN(), rng.choice(SIZES)))
        targets = [0]
    else:
        siz = rng.choice(SIZES)
        emit("%s %x %x" % (BN(), siz, rng.choice([0, 1, 2, 3, 5, 8, 9, 16])))
        targets = ["b"]
    while len(lines) < nops:
        if sp.v[1] is not None and 1 not in targets:
            targets.append(1)
        w = rng.choice(targets)
        a = cur(w)
        if a is None:
            # (re)create
            if w == "b":
                emit("%s %x %x" % (BN(), rng.choice(SIZES), rng.choice([0, 1, 2, 4, 7, 8, 12])))
            else:
                emit("%s %d %x" % (VN(), w, rng.choice(SIZES)))
            if faulty and rng.random() < 0.5:
                continue
            a = cur(w)
            if a is None and not faulty:
                continue
        if a is None:
            siz, n, m, seq = 1, 0, 0, []
        else:
            siz, n, m, seq = a.siz, len(a.seq), a.mem, a.seq
        P = prefix(w)
        e = lambda: rnd_elem(rng, siz, emode)
        c = rng.random()
        if c < 0.10:
            emit("%s %s %s" % (P, PUSHB(), e()))
        elif c < 0.16:
            emit("%s pushf %s" % (P, e()))
        elif c < 0.26:
            emit("%s ins %x %s" % (P, pick_idx(rng, n, m), e()))
        elif c < 0.38:
            emit("%s rem %x" % (P, pick_idx(rng, n, m)))
        elif c < 0.42:
            emit("%s %s" % (P, rng.choice(["pullf", "pullf", "pullb", "pull"])))
        elif c < 0.50:
            k = rng.choice([0, 1, 1, 2, 3, 5, max(m - n, 0), max(m - n, 0) + 1])
            k = min(k, 24)
            vs = ",".join(e() for _ in range(k)) or "-"
            emit("%s store %x %s %d" % (P, pick_idx(rng, n, m), vs, rng.randrange(2)))
        elif c < 0.60:
            idx = pick_idx(rng, n, m)
            emit("%s erase %x %x %d" % (P, idx, pick_cnt(rng, n, idx), rng.randrange(2)))
        elif c < 0.66:
            # fill to exactly full, then an operation whose implementation depends on a spare slot
            k = 0
            while a is not None and len(a.seq) < a.mem and k < 40 and len(lines) < nops + 40:
                emit("%s %s %s" % (P, PUSHB(), e()))
                k += 1
            d = rng.random()
            if d < 0.4:
                emit("%s rem %x" % (P, pick_idx(rng, len(a.seq) if a else 0, m)))
            elif d < 0.6:
                emit("%s sort" % P)
                emit("%s pullf" % P)
                emit("%s pushf %s" % (P, e()))
                emit("%s sortf" % P)
            elif d < 0.8:
                emit("%s sort" % P)
                emit("%s %s" % (P, PULLB()))
                emit("%s %s %s" % (P, PUSHB(), e()))
                emit("%s sortb" % P)
            else:
                emit("%s %s" % (P, rng.choice(["sortf", "sortb", "pushs " + e(), "ins 1 " + e(), "pushb " + e(),
                                               "push " + e()])))
        elif c < 0.74:
            # sorted-insert in a sorted context
            emit("%s sort" % P)
            d = rng.random()
            if d < 0.35:
                emit("%s pushs %s" % (P, e()))
            elif d < 0.65:
                emit("%s pushf %s" % (P, e()))
                emit("%s sortf" % P)
            else:
                emit("%s pushb %s" % (P, e()))
                emit("%s sortb" % P)
            if rng.random() < 0.5:
                emit("%s search %s" % (P, e() if rng.random() < 0.5 or not seq else rng.choice(seq).hex()))
        elif c < 0.78:
            emit("%s %s" % (P, rng.choice(["sortf", "sortb", "pushs " + e(), "sort"])))
        elif c < 0.84:
            d = rng.random()
            if d < 0.7:
                nn = rng.choice([0, 1, max(n - 1, 0), n, n + 1, n + 3, m, m + 1, rng.randrange(0, 40)])
            else:
                nn = rng.choice([SIZE_MAX, SIZE_MAX - 7, 1 << 63, (1 << 63) - 1, 1 << 61, 1 << 60,
                                 vec_max_cap(siz), vec_max_cap(siz) + 1, lim // siz + 1,
                                 lim // siz + (lim > SMALL_LIMIT), 1 << 32])
            emit("%s setn %x %d %s" % (P, nn, rng.randrange(2), e()))
        elif c < 0.88:
            d = rng.random()
            if d < 0.7:
                mm = rng.choice([0, 1, max(n - 1, 0), n, n + 1, m, m + 1, m + 9, rng.randrange(0, 50)])
            else:
                mm = rng.choice([SIZE_MAX, 1 << 63, 1 << 61, vec_max_cap(siz), vec_max_cap(siz) + 1,
                                 lim // siz + 1, lim // siz + (lim > SMALL_LIMIT), (M64 - 24) // siz,
                                 (M64 - 24) // siz + 1])
            if w == "b" and mm * siz + 24 >= M64:
                mm = rng.randrange(0, 30)      # byte size must be representable: documented precondition
            emit("%s setm %x" % (P, mm))
        elif c < 0.90:
            emit("%s setz %x %d" % (P, rng.choice(SIZES), rng.randrange(2)))
        elif c < 0.96:
            d = rng.randrange(4)
            if d == 0:
                emit("%s at %x" % (P, pick_idx(rng, n, m)))
            elif d == 1:
                emit("%s of %x" % (P, rng.choice([0, 1, n, m, SIZE_MAX, M64 - n if n else SIZE_MAX,
                                                   (M64 - n - 1) % M64, M64 - 1 - (n // 2), 1 << 63])))
            elif d == 2:
                emit("%s top" % P)
            else:
                emit("%s end" % P)
        elif c < 0.98:
            if w != "b":
                if sp.v[0] is not None and sp.v[1] is not None:
                    emit("vs")
                elif sp.v[1] is None:
                    emit("%s 1 %x" % (VN(), rng.choice(SIZES)))
        else:
            if w == "b":
                emit("%s %d" % (BD(), rng.randrange(2)))
            else:
                emit("%s %d %d" % (VD(), w, rng.randrange(2)))
    # tear down: the ledger must end empty
    emit("%s 0 %d" % (VD(), rng.randrange(2)))
    emit("%s 1 %d" % (VD(), rng.randrange(2)))
    emit("%s %d" % (BD(), rng.randrange(2)))
    return lines


def systematic():
    """Deterministic sweep of the case splits: for both containers, element sizes 1 and 4, every count 0..9 and
    16, with a spare slot and exactly full, every operation at every boundary index (0, 1, middle, n-2, n-1, n,
    n+1, 2^63, SIZE_MAX-1, SIZE_MAX), sorted inserts below / inside / above the existing elements."""
    out = []
    for kind in ("v", "b"):
        for siz in (1, 4):
            def el(i):
                return (bytes([i]) + bytes(siz - 1)).hex()
            for n in list(range(0, 10)) + [16]:
                for full in (False, True):
                    if kind == "v" and full and n not in (8, 16):
                        continue
                    if kind == "v" and not full and n in (8, 16):
                        continue
                    P = "v 0" if kind == "v" else "b"
                    pre = ["H %x -" % LIMIT]
                    byhand = n % 2 == 1        # odd counts: a_alloc + ctor ... dtor + a_alloc instead of new ... die
                    pre.append(("vc 0 %x" if byhand else "vn 0 %x") % siz if kind == "v"
                               else ("bc %x %x" if byhand else "bn %x %x") % (siz, n if full else n + 2))
                    if n:
                        pre.append("%s store 0 %s 0" % (P, ",".join(el(2 * i + 3) for i in range(n))))
                    post = [("vx 0 1" if byhand else "vd 0 1") if kind == "v" else ("bx 1" if byhand else "bd 1")]
                    idxs = sorted(set([0, 1, n // 2, max(n - 2, 0), max(n - 1, 0), n, n + 1, 1 << 63, SIZE_MAX - 1, SIZE_MAX]))
                    ops = []
                    for i in idxs:
                        ops += ["rem %x" % i, "ins %x %s" % (i, el(200)), "at %x" % i, "of %x" % ((M64 - i) % M64)]
                        for c in sorted(set([0, 1, 2, max(n - i, 0) if i < M64 else 0, n, SIZE_MAX, (M64 - i) % M64,
                                             (M64 - i + 1) % M64, 1 << 63])):
                            ops.append("erase %x %x %d" % (i, c, (i + c) % 2))
                        for k in (0, 1, 2, 3):
                            ops.append("store %x %s %d" % (i, ",".join(el(100 + j) for j in range(k)) or "-", k % 2))
                    for key in (0, 1, 2, 3, 4, n, 2 * n + 1, 2 * n + 2, 2 * n + 3, 2 * n + 4, 255):
                        ops += ["pushs " + el(key), "pushf %s|sortf" % el(key), "pushb %s|sortb" % el(key),
                                "search " + el(key)]
                        if n:
                            ops += ["pullf|pushf %s|sortf" % el(key), "pullb|pushb %s|sortb" % el(key)]
                    ops += ["pullf", "pullb", "pull", "pushf " + el(1), "pushb " + el(1), "push " + el(1),
                            "push %s|push %s|pull" % (el(1), el(2)), "top", "end", "sort", "sortf", "sortb",
                            "setz 0 1", "setz 3 0", "setz %x 1" % siz]
                    for m in sorted(set([0, max(n - 1, 0), n, n + 1, n + 2, n + 9, SIZE_MAX, 1 << 63, vec_max_cap(siz),
                                         vec_max_cap(siz) + 1])):
                        ops.append("setn %x %d %s" % (m, m % 2, el(77)))
                        if kind == "v" or m * siz + 24 < (1 << 63):
                            ops.append("setm %x" % m)
                    for o in ops:
                        out.append(pre + ["%s %s" % (P, x) for x in o.split("|")] + ["%s top" % P] + post)
    return out


def huge_histories(rng, n_random):
    """Vectors whose ELEMENT SIZE is huge (around SIZE_MAX/16 .. SIZE_MAX, 2^32 .., each +-2): siz * capacity
    leaves 64 bits after a handful of elements, so the capacity arithmetic of a_vec_setm is exercised where a
    rounding step matters.  No such element can exist (every request exceeds the allocator limit or a_diff), so
    correct code refuses every growth; the driver never touches element bytes.  Only operations whose model
    does not materialise an element are used (no sort / search / push_sort / setz)."""
    out = []

    def script(siz, k, r):
        mx = vec_max_cap(siz)
        raw = ((1 << 63) - 1) // siz            # the byte limit before rounding down to a multiple of 8
        caps = sorted(set([0, 1, 2, 3, 7, 8, 9, mx, mx + 1, raw, raw + 1, max(raw - 1, 0), 16, SIZE_MAX, 1 << 63]))
        new = ("vn", "vc")[k % 2]
        die = ("vd", "vx")[(k // 2) % 2]
        ops = ["top", "end", "at 0", "of ffffffffffffffff", "pullb", "rem 0"]
        grow = ["pushb 01", "push 02", "pushf 03", "ins 0 04", "ins ffffffffffffffff 05", "store 0 06 0", "store 0 - 0"]
        grow += ["setm %x" % c for c in caps] + ["setn %x %d 07" % (c, c % 2) for c in caps]
        if r is None:
            body = []
            for g in grow:
                body += [g, "top"]
            body += ["pushb 01", "pushb 02", "at 1", "pull", "erase 0 1 1"] + ops
        else:
            body = [r.choice(grow + ops + ["pull", "pullf", "erase 0 %x 1" % r.choice([0, 1, SIZE_MAX]), "vs"])
                    for _ in range(r.randrange(4, 25))]
        h = ["H %x -" % LIMIT, "%s 0 %x" % (new, siz)]
        if r is not None and r.random() < 0.4:
            h.append("%s 1 %x" % (new, r.choice(HUGE_SIZES)))
        for b in body:
            h.append(b if b == "vs" else "v %d %s" % (0 if r is None or r.random() < 0.8 else 1, b))
        h += ["%s 0 1" % die, "%s 1 0" % die]
        return h

    for k, siz in enumerate(HUGE_SIZES):
        out.append(script(siz, k, None))
    for i in range(n_random):
        out.append(script(rng.choice(HUGE_SIZES), i, rng))
    return out


def load_corpus():
    hs = []
    if CORPUS.exists():
        for f in sorted(CORPUS.glob("*.case")):
            cur = None
            for ln in f.read_text().splitlines():
                ln = ln.strip()
                if not ln or ln.startswith("#"):
                    continue
                if ln.startswith("H "):
                    cur = [ln]
                    hs.append((f.name, cur))
                elif cur is not None:
                    cur.append(ln)
    return hs


# ============================================================================ running the two sides
def split_out(out):
    """Output text -> list of per-history line lists."""
    res = []
    for ln in out.splitlines():
        if ln.startswith("H "):
            res.append([])
        elif res:
            res[-1].append(ln)
    return res


def run_c(cbin, hists, timeout=None, max_crashes=12, chunk=150):
    """Run histories through the C driver (in chunks, so that a hang costs one short timeout).
    Returns list of dict(lines=[...], crash=None|str[, skipped=True])."""
    results = [None] * len(hists)
    start = 0
    crashes = 0
    env = {"ASAN_OPTIONS": "detect_leaks=0:abort_on_error=0:allocator_may_return_null=1",
           "UBSAN_OPTIONS": "print_stacktrace=0"}
    while start < len(hists):
        stop = min(start + chunk, len(hists))
        text = "\n".join("\n".join(h) for h in hists[start:stop]) + "\n"
        tmo = timeout or (8 + 0.05 * (stop - start))
        rc, out, errt = vlib.sh2([str(cbin)], stdin=text, timeout=tmo, env=env)
        parts = split_out(out)
        if rc == 0 and len(parts) == stop - start:
            for i, p in enumerate(parts):
                results[start + i] = {"lines": p, "crash": None}
            start = stop
            continue
        # histories before the last announced one completed
        k = max(len(parts) - 1, 0)
        for i in range(k):
            results[start + i] = {"lines": parts[i], "crash": None}
        bad = start + k
        env2 = dict(env)
        env2["C04_LINEBUF"] = "1"
        rc2, out2, err2 = vlib.sh2([str(cbin)], stdin="\n".join(hists[bad]) + "\n", timeout=3, env=env2)
        p2 = split_out(out2)
        why = "hang (no result within 3 s)" if rc2 == 124 else sanitizer_summary(err2) or ("exit status %d" % rc2)
        if rc2 == 0:
            why = "driver failed in batch (rc=%d) but not alone: %s" % (rc, sanitizer_summary(errt) or errt[-300:])
        results[bad] = {"lines": p2[0] if p2 else [], "crash": why}
        crashes += 1
        start = bad + 1
        if crashes >= max_crashes:
            for i in range(start, len(hists)):
                results[i] = {"lines": [], "crash": None, "skipped": True}
            break
    return results


def sanitizer_summary(err):
    m = re.search(r"(ERROR: AddressSanitizer: [^\n]*|runtime error: [^\n]*|SUMMARY: [^\n]*)", err or "")
    s = m.group(1) if m else ""
    m2 = re.search(r"#\d+ 0x[0-9a-f]+ in (a_(?:vec|buf)_\w+|a_swap)\b[^\n]*", err or "")
    if m2:
        s += " in " + m2.group(1)
    return re.sub(r"0x[0-9a-f]+", "0x..", s)[:300]


def run_model(mbin, hists, timeout):
    text = "\n".join("\n".join(h) for h in hists) + "\n"
    rc, out, err = vlib.sh2([str(mbin)], stdin=text, timeout=timeout)
    if rc != 0:
        raise vlib.CheckError("model driver failed rc=%d: %s" % (rc, err[-500:]))
    return split_out(out)


def c_fails(cbin, hist):
    """Does this single history violate the property on the implementation?  -> None | (op_index, message)"""
    r = run_c(cbin, [hist], timeout=3, max_crashes=1)[0]
    v = check_history(hist, r["lines"])
    if r["crash"] and (v is None or v[0] > len(r["lines"])):
        nops = len([x for x in hist if not x.startswith("H ")])
        idx = min(len(r["lines"]), nops - 1) + 1
        return (idx, "implementation aborted: " + r["crash"])
    return v


def shrink(cbin, hist, budget=250):
    head, ops = hist[0], hist[1:]
    ops = vlib.ddmin(ops, lambda sub: c_fails(cbin, [head] + sub) is not None, max_tests=budget)
    return [head] + ops


FN = {"rem": "remove", "ins": "insert", "pushb": "push_back", "pushf": "push_fore", "pushs": "push_sort",
      "pullf": "pull_fore", "pullb": "pull_back", "sortf": "sort_fore", "sortb": "sort_back"}


def op_key(hist, idx):
    t = hist[idx].split() if 0 <= idx < len(hist) else ["?"]
    if t[0] == "v":
        return "a_vec_" + FN.get(t[2], t[2])
    if t[0] == "b":
        return "a_buf_" + FN.get(t[1], t[1])
    return dict(ENTRY_FN, vs="a_vec_swap").get(t[0], t[0])


def failure_key(hist, idx, msg):
    """Key of a finding: the accessor named by the driver's verdict, else the function of the failing operation."""
    m = re.match(r"accessor (a_(?:vec|buf)_\w+) ", msg)
    return m.group(1) if m else op_key(hist, idx)


# ============================================================================ coverage classification
def classify(t, a):
    """Branch tag of an operation from the pre-state (a: Arr or None).  Mirrors the case splits of the model."""
    if a is None:
        return t[0]
    o = OP_ALIAS.get(t[0], t[0])
    n, m = len(a.seq), a.mem
    K = a.kind + "."
    full = "full" if n >= m else "spare"
    if o in ("rem", "pullf"):
        idx = int(t[1], 16) if o == "rem" else 0
        if n == 0:
            return K + "remove:empty"
        if idx < n - 1:
            return K + "remove:mid:" + full
        return K + ("remove:last" if idx < n else ("remove:beyond" if idx < (1 << 62) else "remove:huge"))
    if o in ("ins", "pushf"):
        idx = int(t[1], 16) if o == "ins" else 0
        if a.kind == "b" and n >= m:
            return K + "insert:refused"
        g = ":grow" if n + 1 > m else ""
        return K + ("insert:mid" if idx < n else ("insert:end" if idx == n else "insert:beyond")) + g
    if o == "pushb":
        if a.kind == "b" and n >= m:
            return K + "push_back:refused"
        return K + "push_back" + (":grow" if n + 1 > m else "")
    if o == "pullb":
        return K + ("pull_back:empty" if n == 0 else "pull_back")
    if o == "store":
        idx = int(t[1], 16)
        k = 0 if t[2] == "-" else len(t[2].split(","))
        if k == 0:
            return K + "store:zero"
        if a.kind == "b" and n + k > m:
            return K + "store:refused"
        return K + ("store:mid" if idx < n else "store:end") + (":grow" if n + k > m else "")
    if o == "erase":
        idx, cnt = int(t[1], 16), int(t[2], 16)
        d = ":dtor" if t[3] == "1" else ""
        if idx >= n:
            return K + "erase:oob" + (":wrap" if idx + cnt >= M64 else "") + d
        if cnt < n - idx:
            return K + "erase:mid" + d
        return K + ("erase:tail" if idx + cnt < M64 else "erase:tail:wrap") + d
    if o in ("sortf", "sortb"):
        if n <= 1:
            return K + o + ":trivial"
        rest = a.seq[1:] if o == "sortf" else a.seq[:-1]
        return K + o + ":" + ("bsearch" if n < m else "bubble") + (":sorted" if is_sorted(rest) else ":unsorted")
    if o == "pushs":
        if a.kind == "b" and n >= m:
            return K + "push_sort:refused"
        return K + "push_sort" + (":sorted" if is_sorted(a.seq) else ":unsorted") + (":grow" if n + 1 > m else "")
    if o == "setn":
        nn = int(t[1], 16)
        if a.kind == "v" and nn > vec_max_cap(a.siz):
            return K + "setn:above-max"
        if a.kind == "v" and nn > m and vec_grow(m, nn, a.siz) * a.siz > LIMIT:
            return K + "setn:alloc-refused"
        return K + ("setn:shrink" if nn < n else ("setn:same" if nn == n else
                                                   ("setn:grow" if nn <= m or a.kind == "v" else "setn:clamped")))
    if o == "setm":
        mm = int(t[1], 16)
        if a.kind == "b":
            return K + ("setm:below-num" if mm < n else ("setm:shrink" if mm < m else "setm:grow"))
        if mm > vec_max_cap(a.siz):
            return K + "setm:above-max"
        return K + ("setm:noop" if mm <= m else "setm:grow")
    if o == "of":
        return K + ("of:neg" if int(t[1], 16) >= (1 << 63) else "of:pos")
    return K + o


TRIVIAL_TAGS = ("at", "of:pos", "of:neg", "top", "end", "search", "setm:noop", "setn:same", "sortf:trivial",
                "sortb:trivial", "vn", "vd", "bn", "bd", "vs", "vc", "vx", "bc", "bx")


# ============================================================================ the check
def build(ctx):
    cbin = ctx.cc("drv", [H / "drv.c"], repo_srcs=["vec.c", "buf.c", "a.c"], mode="asan")
    ml = ctx.extract("C04/Extract.v", ["C04/extracted/vecmodel.ml", "C04/extracted/vecmodel.mli"])
    mbin = ctx.ocaml_build("mdrv", ml[::-1] + [H / "mdrv.ml"])
    return cbin, mbin


def report_failure(ctx, cbin, hist, origin, reported):
    """Shrink a failing history and report it (once per call-site key)."""
    v = c_fails(cbin, hist)
    if v is None:
        return False
    if failure_key(hist, v[0], v[1]) in reported:
        return True                   # this call site already has a shrunk failing history: no need for another
    small = shrink(cbin, hist)
    v2 = c_fails(cbin, small) or v
    idx, msg = v2
    key = failure_key(small, idx, msg)
    if key in reported:
        return True
    reported.add(key)
    d = vlib.VERIF / "replays" / PID
    d.mkdir(parents=True, exist_ok=True)
    casef = d / ("%s_%d_%s.case" % (ctx.tier, ctx.seed, re.sub(r"\W", "_", key)))
    casef.write_text("\n".join(small) + "\n")
    r = run_c(cbin, [small], timeout=3, max_crashes=1)[0]
    ctx.report(key=key, what="%s: %s" % (key, msg),
               replay={"origin": origin, "case_file": str(casef), "history": small, "failing_line": small[idx] if idx < len(small) else None,
                       "message": msg, "implementation_output": r["lines"][-6:], "crash": r["crash"],
                       "how": "VERIF_REPO=%s python3 tools/vcheck.py C04 --replay %s" % (vlib.REPO, casef)},
               found_input=True)
    return True


def run(ctx):
    ctx.prove()
    tie = vvec.start(ctx)             # translator tie (tools/c2vec.py + harness/C04/TieVec*.v), beside the correspondence
    cbin, mbin = build(ctx)
    quick = ctx.quick
    rng = random.Random(ctx.subseed("histories"))
    corpus = load_corpus()
    hists = [h for _, h in corpus]
    n_corpus = len(hists)
    hists += systematic()
    hists += huge_histories(random.Random(ctx.subseed("huge")), 150 if quick else 1500)
    n_sys = len(hists) - n_corpus
    seeds = 1 if quick else 5
    per_seed = 2500 if quick else 12000
    for s in range(seeds):
        r = random.Random(ctx.subseed("histories/%d" % s))
        for i in range(per_seed):
            nops = r.choice([8, 15, 30, 30, 60, 60, 120])
            hists.append(gen_history(r, nops, faulty=(r.random() < 0.15)))
    t0 = time.time()
    cres = run_c(cbin, hists)
    t1 = time.time()
    mres = run_model(mbin, hists, timeout=240 if quick else 900)
    t2 = time.time()
    ctx.log("C driver %.1fs, model driver %.1fs, %d histories (%d corpus)" % (t1 - t0, t2 - t1, len(hists), n_corpus))

    reported = set()
    n_ops = 0
    tags = {}
    entry = {}                # calls per public entry point that has a twin (new/ctor, die/dtor, push_back/push, ...)
    n_acc = 0                 # accessor verdicts printed by the implementation and compared with the model's
    distinct = set()
    model_errors = 0
    first_div = None
    suspects = []
    for hi, h in enumerate(hists):
        c = cres[hi]
        if c.get("skipped"):
            continue
        m = mres[hi] if hi < len(mres) else []
        d = vlib.first_diff(c["lines"], m)
        if any("MODEL-ERROR" in x for x in m):
            model_errors += 1
        if d is not None or c["crash"]:
            if first_div is None:
                first_div = (hi, d)
            suspects.append(hi)
        # the property itself, on what the implementation printed
        v = check_history(h, c["lines"])
        if (v is not None or c["crash"]) and hi not in suspects:
            suspects.append(hi)
        # coverage
        sp = Spec()
        j = 0
        for ln in h[1:]:
            t = ln.split()
            a = None
            if t[0] == "v":
                a = sp.v[int(t[1])]
                tg = classify(t[2:], a) if a is not None else "absent"
            elif t[0] == "b":
                a = sp.b
                tg = classify(t[1:], a) if a is not None else "absent"
            else:
                tg = t[0]
            tags[tg] = tags.get(tg, 0) + 1
            if j < len(c["lines"]):
                n_acc += c["lines"][j].count(" acc=ok")
                if a is not None or t[0] in ENTRY_FN:
                    opn = t[2] if t[0] == "v" else t[1] if t[0] == "b" else None
                    if t[0] in ENTRY_FN:
                        entry[ENTRY_FN[t[0]]] = entry.get(ENTRY_FN[t[0]], 0) + 1
                    elif opn in ("push", "pull", "pushb", "pullb"):
                        nm = ("a_vec_" if t[0] == "v" else "a_buf_") + FN.get(opn, opn)
                        entry[nm] = entry.get(nm, 0) + 1
                if not tg.endswith(TRIVIAL_TAGS) and tg != "absent":
                    distinct.add(hash((ln, c["lines"][j])))
                try:
                    sp.step(t, parse_line(c["lines"][j]))
                except Bad:
                    break
            j += 1
            n_ops += 1
    vvec.finish(ctx, tie)
    if first_div is not None:
        hi, d = first_div
        c, m = cres[hi], (mres[hi] if hi < len(mres) else [])
        where = "history %d%s" % (hi, " (corpus %s)" % corpus[hi][0] if hi < n_corpus else "")
        if d is not None:
            ctx.tie_broken("correspondence vec/buf model vs implementation: %s, operation %d %r: implementation %r, model %r"
                           % (where, d, hists[hi][d + 1] if d + 1 < len(hists[hi]) else "?",
                              c["lines"][d] if d < len(c["lines"]) else "<nothing>", m[d] if d < len(m) else "<nothing>"))
        else:
            ctx.tie_broken("implementation aborted in %s: %s" % (where, c["crash"]))
        ctx.log("%d histories disagree or abort" % len(suspects))
    if model_errors:
        ctx.tie_broken("the model reported an internal error (MODEL-ERROR) in %d histories" % model_errors)
    # search: shrink and report real failures (one per call site)
    budget = 10                       # distinct call sites reported
    attempts = 0
    for hi in suspects:
        if budget <= 0 or attempts >= 300:
            break
        attempts += 1
        n_before = len(reported)
        report_failure(ctx, cbin, hists[hi], "corpus " + corpus[hi][0] if hi < n_corpus else "generated history %d" % hi,
                       reported)
        if len(reported) > n_before:
            budget -= 1
    if ctx.broken_ties and not reported:
        # the tie broke but no history violated the property: look further with fresh histories (oracle only)
        r = random.Random(ctx.subseed("search"))
        fresh = [gen_history(r, r.choice([15, 30, 60, 120]), faulty=(r.random() < 0.15)) for _ in range(1500 if quick else 6000)]
        fres = run_c(cbin, fresh)
        for hi, h in enumerate(fresh):
            c = fres[hi]
            if c.get("skipped"):
                continue
            if check_history(h, c["lines"]) is not None or c["crash"]:
                if report_failure(ctx, cbin, h, "search history %d" % hi, reported):
                    break

    ctx.count(evaluations=n_ops, nontrivial=len(distinct))
    ctx.cov["rule"] = ("evaluations = operations executed by both the C code and the extracted model and compared; "
                       "distinct_nontrivial = distinct (case line, implementation output line) pairs of state-changing "
                       "operations (accessors, no-op resizes and set-up lines excluded)")
    ctx.cov["histories"] = len(hists)
    ctx.cov["corpus_histories"] = n_corpus
    ctx.cov["systematic_histories"] = n_sys
    ctx.cov["random_histories"] = len(hists) - n_corpus - n_sys
    ctx.cov["branch_hits"] = dict(sorted(tags.items()))
    ctx.cov["entry_point_calls"] = dict(sorted(entry.items()))
    ctx.cov["accessor_verdicts_ok"] = n_acc
    ctx.cov["accessors_evaluated_after_every_operation"] = (
        "a_vec_ptr a_vec_siz a_vec_num a_vec_mem a_vec_at_ a_vec_at a_vec_of a_vec_top_ a_vec_top a_vec_end_ a_vec_end "
        "a_buf_ptr a_buf_siz a_buf_num a_buf_mem a_buf_at_ a_buf_at a_buf_of a_buf_top_ a_buf_top a_buf_end").split()
    ctx.cov["branches_not_reached"] = sorted(set(ALL_TAGS) - set(tags))
    ctx.cov["element_sizes"] = SIZES
    ctx.cov["huge_element_sizes"] = ["%x" % z for z in HUGE_SIZES]
    ctx.cov["repo"] = str(vlib.REPO)
    for hi in (n_corpus + n_sys, n_corpus + n_sys + 1, n_corpus + 7):
        if hi < len(hists) and not cres[hi].get("skipped"):
            ctx.sample({"history": hists[hi][:7], "implementation_and_model_output": cres[hi]["lines"][:6]})
    ctx.cov["trusted_base"].append(
        "C04: extraction (ExtrOcamlBasic only) and the OCaml driver harness/C04/mdrv.ml; the C driver harness/C04/drv.c with "
        "its allocator shim; memcpy/memmove/realloc/qsort/bsearch are modelled (list splices, ledger, insertion sort, lookup); "
        "bytes of slots beyond num are not compared; ASan/UBSan as observers")


ALL_TAGS = [k + x for k in ("v.", "b.") for x in (
    "remove:empty", "remove:mid:spare", "remove:mid:full", "remove:last", "remove:beyond", "remove:huge",
    "insert:mid", "insert:end", "insert:beyond", "push_back", "pull_back", "pull_back:empty",
    "store:zero", "store:mid", "store:end", "erase:oob", "erase:oob:wrap", "erase:mid", "erase:tail", "erase:tail:wrap",
    "erase:mid:dtor", "erase:tail:dtor", "erase:tail:wrap:dtor", "erase:oob:dtor", "erase:oob:wrap:dtor",
    "sortf:bsearch:sorted", "sortf:bubble:sorted", "sortb:bsearch:sorted", "sortb:bubble:sorted",
    "sortf:bsearch:unsorted", "sortf:bubble:unsorted", "sortb:bsearch:unsorted", "sortb:bubble:unsorted",
    "push_sort:sorted", "push_sort:unsorted", "setn:shrink", "setn:grow", "setz", "sort", "search", "at", "of:neg",
    "of:pos", "top", "end")] + [
    "v.insert:mid:grow", "v.insert:end:grow", "v.push_back:grow", "v.store:mid:grow", "v.store:end:grow",
    "v.push_sort:sorted:grow", "v.setn:above-max", "v.setn:alloc-refused", "v.setm:above-max", "v.setm:grow",
    "b.insert:refused", "b.push_back:refused", "b.store:refused", "b.push_sort:refused", "b.setn:clamped",
    "b.setm:below-num", "b.setm:shrink", "b.setm:grow", "vs", "vn", "vd", "bn", "bd", "vc", "vx", "bc", "bx"]


def replay(ctx, path):
    """vcheck.py C04 --replay <case file or replay json>"""
    p = Path(path)
    if p.suffix == ".json":
        hist = json.loads(p.read_text())["replay"]["history"]
    else:
        hist = [ln for ln in p.read_text().splitlines() if ln.strip() and not ln.startswith("#")]
    cbin = ctx.cc("drv", [H / "drv.c"], repo_srcs=["vec.c", "buf.c", "a.c"], mode="asan")
    r = run_c(cbin, [hist], timeout=3, max_crashes=1)[0]
    for a, b in zip(hist[1:], r["lines"]):
        print("  %-40s -> %s" % (a[:40], b[:160]))
    v = c_fails(cbin, hist)
    if v is None:
        print("replay: the property holds on this history")
        return 0
    print("replay: operation %d %r: %s" % (v[0], hist[v[0]] if v[0] < len(hist) else "?", v[1]))
    return 1
