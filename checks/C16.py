"""C16: discrete transfer function and first-order RC filters.

Proof over R (coq/Properties_C16.v).  Tie: bit-exact binary64 execution of the same Gallina terms (vm_compute) vs the C.
Search oracle: exact rational (fractions) reference recurrence on integer-valued inputs/coefficients; range, convexity
and decay statements evaluated on the C outputs; lpf_gen/hpf_gen strictly inside (0,1) on a log grid 1e-12..1e12."""
from fractions import Fraction

import fcorr
import vlib

META = {
    "text": "Rocq theorems over the reals for ALL input sequences and ALL numerator/denominator orders (0 included): the "
            "output of a_tf_iter from zero state is the difference equation (indexed form and delay-line contents), the map "
            "input->output is linear and time-invariant (induction over the sequence with explicit histories), zeroing "
            "restores the initial state; lpf output is a convex combination (stays in the hull of state and inputs) and "
            "settles geometrically to a constant input, hpf decays geometrically to 0 (closed forms + Coquelicot limits); "
            "lpf_gen/hpf_gen lie strictly in (0,1) for positive fc, ts. Rounded instance Rnd_ops rnd (C16/FilterRound.v; overflow "
            "outside the model): the lpf hull statement is REFUTED under rounding - proved for a 3-bit round-to-nearest-even "
            "format (alpha=5/64, out=x=5 gives 4) and for IEEE binary64 itself (alpha=0x1.999999999999ap-4, out=x=13 gives "
            "13+2^-49; the C returns the same) - and what is proved instead is: for monotone rnd with rnd 0=0, rnd 1=1 "
            "(binary64 by Flocq) and alpha in [0,1] the filter is monotone in state and inputs over every history, preserves "
            "sign, and keeps [lo,hi] invariant iff it does in the two constant corner cases; under the standard model "
            "|rnd x-x|<=eps|x|+eta one step stays in the hull enlarged by ((1+eps)^3-1)A+eta((1+eps)^2 A+2(1+eps)+1), "
            "A>=|lo|,|hi|. Rounded transfer function (C16/TfRound.v, 6 theorems; every std_model rnd eps eta, every pair of orders "
            "nn, nd, every state; overflow outside the model): one a_tf_iter step returns y^ with |y^ - (sum num_i u_i - sum den_j y_j)| "
            "<= ((1+eps)^(n+1)-1)(sum|num_i u_i| + sum|den_j y_j|) + 2n eta (1+eps)^(n+1), n = nn+nd, u and y the CURRENT (already "
            "rounded) delay lines, the reference being what the exact instance returns from the same state; the gamma_(n+1) form when "
            "(n+1)eps<1; one rounding fewer ((1+eps)^n, (2n-1) eta) when rnd is idempotent (and odd if the numerator is empty) - this "
            "sharp form is the binary64 corollary (Flocq); over a whole run from the zero state, every input sequence, every index k, "
            "the computed outputs satisfy the difference equation (feedback sum over the COMPUTED outputs) up to that one-step "
            "residual, equivalently the computed sequence is the EXACT response over R to the inputs with a disturbance r_k within the "
            "residual bound added at the summing node, and computed = exact + (exact response of the all-pole filter 1/den to r); no "
            "bound on that propagated error and no perturbed-INPUT form is claimed (they depend on the stability of 1/den, 1/num). "
            "FLOAT RUN = ROUNDED-REAL RUN (Common/F64Refine.v, C16/LpfFloat.v, 5 theorems): on Coq's primitive binary64 floats - the "
            "instance compared bit for bit with the C - one a_lpf_iter step for every finite alpha in [0,1] and finite state/sample up "
            "to 2^1022 is finite and its real value is the rounded-real step; a run of ANY length likewise while the rounded-real "
            "outputs stay below 2^1022, and whenever the two corners of [-M,M] are stable every float run on data in [-M,M] stays "
            "finite and in [-M,M] (no overflow, no NaN); one a_hpf_iter step, and a high-pass run of any length under the same kind of guard, likewise up to 2^1021. "
            "Tie: bit-exact binary64 run of the same terms vs the C. Glue around the modelled core (differential tests, "
            "not theorems): the 11 C++ member functions of a_tf, a_lpf and a_hpf (list read from the headers on every run; those of "
            "a_lpf/a_hpf repeat the C inline bodies) against the C functions they stand for, all state and both delay lines compared bit "
            "for bit; and one driver generic in a_real built as float, double and long double with ASan+UBSan: a_tf_init/set_num/"
            "set_den/iter/zero (delay lines pre-filled with 777 in one pool with guard bytes, so 'starts from zero state' and a "
            "clear of the wrong size are observable), a_lpf/a_hpf init/iter/zero on dyadic data whose every intermediate fits binary32 "
            "must print exactly the difference equations' values in all three builds; a_lpf_gen/a_hpf_gen (pi) within 1e-5 + 1e-6. "
            "LOOP TIE (harness/C16/TieLoop1.v, 6 theorems re-proved on every run): a_tf_iter, a_tf_zero, a_tf_set_num, a_tf_set_den, "
            "a_tf_init and the a_real_push_fore they call are regenerated from the current sources with the two dot loops as "
            "Fixpoints (tools/c2arr.py; the members of a_tf read are inputs, those written are results) and proved equal to "
            "tf_iter, tf_run (one call per sample, every input sequence), tf_zero and tf_init for every NumOps instance with "
            "zero = 0 and EVERY pair of orders below 2^32 (the orders are unsigned int), delay lines as long as the coefficient "
            "vectors.",
    "note": "Trusted: Coq kernel/vm_compute with primitive floats; real-number axioms listed by Print Assumptions; the "
            "'same term, different NumOps instance' argument; hand transcription coq/C16/FilterDefs.v validated bit for bit on "
            "the generated cases only; memmove modelled as list shift (read all, then write), memset 0 as writing the real 0; the translators (tools/c2coq.py, tools/c2arr.py) are trusted to read the C right - their output is proved equal to the model, not to the C. Float saturation of gen for extreme fc*ts is checked on a grid, not proved. The glue runs "
            "(tools/vglue.py, harness/glue/) are differential tests on generated inputs, not theorems; the float and long double builds "
            "are not modelled in Rocq.",
    "technique": "Rocq proof over R (list induction with explicit histories, nra, Coquelicot limits) + lpf/hpf regenerated from the headers by a translator and re-tied by conversion on every run, a_tf_iter/zero/set_num/set_den/init regenerated with their loops as Fixpoints and proved equal to the model for every pair of orders, a_tf_iter/a_tf_zero unrolled for all orders 0..3 x 0..3 and proved equal to the list model + bit-exact primitive-float model vs C correspondence",
}

H = vlib.VERIF / "harness" / "C16"


def gen_cases(ctx):
    r = ctx.rng.__class__(ctx.subseed("c16"))
    n = 120 if ctx.quick else 2500
    cases = []
    for k in range(n):
        nn, nd = r.choice([0, 1, 1, 2, 3, 4, 8]), r.choice([0, 0, 1, 2, 3, 5, 8])
        integer = (k % 3 == 0)
        f = (lambda: float(r.randint(-4, 4))) if integer else (lambda: fcorr.rand_double(r, "m") * 0.3)
        num = [f() for _ in range(nn)]
        den = [f() * (0.25 if integer else 1) for _ in range(nd)]
        nu = r.choice([1, 2, 5, 9, 17, 30])
        us = [f() for _ in range(nu)]
        zat = r.choice([0, 0, 0, r.randint(1, nu)])   # 0: never zeroed
        cl = "tf %x %x %x " % (nn, nd, zat) + " ".join(fcorr.argbits(v) for v in num + den + us)
        # model: run, optionally zero before step zat-1
        if zat == 0:
            ce = ("let r := tf_run F64_ops (tf_init F64_ops %s %s) %s in snd r ++ input (fst r) ++ output (fst r)"
                  % (fcorr.coq_list(num), fcorr.coq_list(den), fcorr.coq_list(us)))
        else:
            ce = ("let r1 := tf_run F64_ops (tf_init F64_ops %s %s) %s in let r2 := tf_run F64_ops (tf_zero F64_ops (fst r1)) %s in "
                  "snd r1 ++ snd r2 ++ input (fst r2) ++ output (fst r2)"
                  % (fcorr.coq_list(num), fcorr.coq_list(den), fcorr.coq_list(us[:zat - 1]), fcorr.coq_list(us[zat - 1:])))
        cases.append((cl, ce, ("tf", nn, nd, zat, num, den, us, integer)))
    # directed: the whole history at the bottom of the range (integer data times a power of two such that every exact value is a
    # subnormal or barely normal number, coefficients in {-1,0,1}: nothing is rounded) - "realise their difference equations
    # exactly" holds there too, and a flush of small values to zero shows as a wrong output
    for k in range(12 if ctx.quick else 120):
        nn, nd = r.choice([1, 2, 3]), r.choice([0, 1, 2, 3])
        num = [float(r.choice([-1, 1, 1, 2, -2, 0])) for _ in range(nn)]
        den = [float(r.choice([-1, 0, 1, 1])) for _ in range(nd)]
        scale = 2.0 ** r.choice([-1074, -1070, -1060, -1040, -1030, -1022])
        nu = r.choice([2, 5, 9])
        us = [r.randint(-3, 3) * scale for _ in range(nu)]
        us[0] = scale
        cl = "tf %x %x %x " % (nn, nd, 0) + " ".join(fcorr.argbits(v) for v in num + den + us)
        ce = ("let r := tf_run F64_ops (tf_init F64_ops %s %s) %s in snd r ++ input (fst r) ++ output (fst r)"
              % (fcorr.coq_list(num), fcorr.coq_list(den), fcorr.coq_list(us)))
        cases.append((cl, ce, ("tf", nn, nd, 0, num, den, us, "tiny")))
    for k in range(n):
        alpha = r.choice([0.0, 1.0, 0.5, r.random(), r.random(), r.random() * 1e-3])
        xs = [fcorr.rand_double(r, "m") for _ in range(r.choice([1, 3, 10, 40]))]
        if k % 4 == 0:
            xs = [xs[0]] * len(xs)
        if k % 9 == 1:      # finite inputs at the edge of the range with alternating sign: the convex form must not overflow
            big = r.choice([1.5e308, 1.0e308, 1.7e308])
            xs = [(-big if j % 2 == 0 else big) * r.choice([1.0, 0.99]) for j in range(len(xs) + 1)]
            alpha = r.choice([1.0, 0.5, alpha])
        for nm in ("lpf", "hpf"):
            cl = nm + " " + " ".join(fcorr.argbits(v) for v in [alpha] + xs)
            ce = ("lpf_run F64_ops %s 0 %s" % (fcorr.coqf(alpha), fcorr.coq_list(xs)) if nm == "lpf" else
                  "hpf_run F64_ops %s (0, 0) %s" % (fcorr.coqf(alpha), fcorr.coq_list(xs)))
            cases.append((cl, ce, (nm, alpha, xs)))
    grid = []
    for e in range(-12, 13):
        for efc in (-6, -3, 0, 3, 6):
            fc = 10.0 ** efc * r.uniform(1, 9.99)
            ts = 10.0 ** (e - efc) * r.uniform(0.1, 1)
            grid.append((fc, ts))
    # directed: both ends of the range of positive arguments ("the generators map positive fc and ts into [0,1]")
    ends = [5e-324, 1e-310, 2.2250738585072014e-308, 1e-300, 1e-150, 1.0, 1e150, 1e300, 1.7976931348623157e308]
    grid += [(a, b) for a in ends for b in ends]
    for fc, ts in grid:
        cases.append(("gen %s %s" % (fcorr.argbits(fc), fcorr.argbits(ts)),
                      "[lpf_gen F64_ops %s %s; hpf_gen F64_ops %s %s]" % (fcorr.coqf(fc), fcorr.coqf(ts), fcorr.coqf(fc), fcorr.coqf(ts)),
                      ("gen", fc, ts)))
    return cases


def oracle(meta, out):
    kind = meta[0]
    if kind == "tf":
        _, nn, nd, zat, num, den, us, integer = meta
        ys = out[:len(us)]
        if not integer or any(v != v or abs(v) == float("inf") for v in out):
            return None
        tiny = integer == "tiny"
        # exact reference recurrence (dyadic data: every C operation must have been exact or correctly rounded; compare with tolerance 0
        # when everything stayed small, else relative 1e-9)
        N, D = [Fraction(v) for v in num], [Fraction(v) for v in den]
        hu, hy, ref = [], [], []
        for k, u in enumerate(us):
            if zat and k == zat - 1:
                hu, hy = [], []
            hu.insert(0, Fraction(u))
            y = sum(N[i] * hu[i] for i in range(min(nn, len(hu)))) - sum(D[j] * hy[j] for j in range(min(nd, len(hy))))
            hy.insert(0, y)
            ref.append(y)
        for k, (e, o) in enumerate(zip(ref, ys)):
            if (Fraction(o) != e) if tiny else (abs(Fraction(o) - e) > Fraction(1, 10 ** 9) * max(abs(e), 1)):
                return "a_tf_iter output %d is %r, difference equation gives %s" % (k, o, float(e))
        lines = out[len(us):]
        exp_in = [float(x) for x in (hu + [0] * nn)[:nn]]
        exp_out = (hy + [Fraction(0)] * nd)[:nd]
        if [Fraction(v) for v in lines[:nn]] != [Fraction(v) for v in exp_in]:
            return "input delay line is %s, expected most-recent-first %s" % (lines[:nn], exp_in)
        for o, e in zip(lines[nn:], exp_out):
            if (Fraction(o) != e) if tiny else (abs(Fraction(o) - e) > Fraction(1, 10 ** 9) * max(abs(e), 1)):
                return "output delay line %s differs from most recent outputs" % (lines[nn:],)
        return None
    if kind == "lpf":
        alpha, xs = meta[1], meta[2]
        lo, hi = 0.0, 0.0
        for x, y in zip(xs, out):
            lo, hi = min(lo, x), max(hi, x)
            tol = 1e-12 * max(abs(lo), abs(hi), 1e-300)
            if not (lo - tol <= y <= hi + tol):
                return "lpf output %r outside the range [%r,%r] of the values fed so far (alpha=%r)" % (y, lo, hi, alpha)
        if len(set(xs)) == 1 and 0 < alpha <= 1 and len(xs) >= 2:
            c = xs[0]
            if abs(out[-1] - c) > abs(out[0] - c) + 1e-12 * abs(c):
                return "lpf does not approach the constant input"
        return None
    if kind == "hpf":
        alpha, xs = meta[1], meta[2]
        if len(set(xs)) == 1 and 0 <= alpha < 1 and len(xs) >= 2:
            for a, b in zip(out, out[1:]):
                # (out + x) - x is rounded: allow the absolute rounding error of that sum
                if abs(b) > alpha * (abs(a) + 1e-15 * abs(xs[0])) * (1 + 1e-12) + 1e-300:
                    return "hpf output does not decay geometrically for a constant input (alpha=%r): %r -> %r" % (alpha, a, b)
        return None
    if kind == "gen":
        fc, ts = meta[1], meta[2]
        for nm, v in zip(("a_lpf_gen", "a_hpf_gen"), out):
            if not (0.0 <= v <= 1.0):
                return "%s(%r,%r)=%r outside [0,1]" % (nm, fc, ts, v)
            if 1e-12 <= fc * ts <= 1e12 and not (0.0 < v < 1.0):
                return "%s(%r,%r)=%r not strictly inside (0,1)" % (nm, fc, ts, v)
        return None
    return None


def run(ctx):
    ctx.prove()
    # second tie: lpf/hpf are REGENERATED from the current headers by the translator and re-tied to the proved model
    ctx.translate_and_tie([(str(H / "rc_unit.c"), ["a_lpf_gen", "a_hpf_gen", "a_lpf_iter", "a_hpf_iter", "a_lpf_zero", "a_hpf_zero"])],
                          "GenRc", H / "TieRc.v")
    # third tie: a_tf_iter / a_tf_zero UNROLLED for every pair of orders 0..3 x 0..3 (a_real_push_fore of math.c inlined, delay lines
    # and coefficient vectors exactly sized) and proved equal to the list model for all contents
    ctx.translate_and_tie([("src/tf.c", (H / "tie_names.txt").read_text().split())], "GenTf", H / "TieTf.v", extra_sources=["src/math.c"])
    # fourth tie: a_tf_iter / a_tf_zero / a_tf_set_num / a_tf_set_den / a_tf_init with their loops as Fixpoints (tools/c2arr.py), proved
    # equal to tf_iter / tf_run / tf_zero / tf_init for EVERY pair of orders (harness/C16/TieLoop1.v)
    import varr
    varr.arr_translate_and_tie(ctx, "C16")
    ctx.assumptions += ["binary64 rounding is not part of the theorems; integer-valued cases are compared with an exact rational reference",
                        "C built with gcc -O2 -ffp-contract=off"]
    cbin = ctx.cc("drv", [H / "drv.c"], repo_srcs=["tf.c", "math.c", "a.c"], mode="num", extra=["-fsanitize=address"])
    ok, outs, failed = ctx.coq_build(["C16/FilterDefs.v", "Common/FloatOps.v"])
    if not ok:
        raise vlib.CheckError("model does not compile: %s" % failed)
    cases = gen_cases(ctx)
    crashes = []
    c_out = fcorr.run_c(cbin, [c[0] for c in cases], crashes=crashes)
    for idx, msg in crashes:
        if msg.startswith("skipped"):
            continue
        ctx.report("%s/sanitizer" % cases[idx][2][0], "the C aborted on this case: " + msg,
                   {"case": cases[idx][0], "inputs": [repr(x) for x in cases[idx][2][1:]], "stderr": msg})
    crashed = set(i for i, _ in crashes)
    m_out = fcorr.run_model(ctx, "c16cases", ["C16.FilterDefs"], [c[1] for c in cases])
    nd = 0
    kinds = {}
    for i, (cl, ce, meta) in enumerate(cases):
        kinds[meta[0]] = kinds.get(meta[0], 0) + 1
        if i not in crashed and c_out[i] != m_out[i]:
            nd += 1
            if nd <= 3:
                ctx.tie_broken("correspondence C16 (bit-exact binary64): case #%d %s: C %s, model %s" % (i, cl[:60], c_out[i][:8], m_out[i][:8]))
    nrep = 0
    for i, (cl, ce, meta) in enumerate(cases):
        if i in crashed:
            continue
        why = oracle(meta, [fcorr.fval(b) for b in c_out[i]])
        if why and nrep < 4:
            nrep += 1
            ctx.report("%s/case" % meta[0], why, {"case": cl, "inputs": [repr(x) for x in meta[1:]], "c_output": c_out[i]})
    # a fixed probe of the low pass with the STRICT statement of the property (no rounding tolerance): 340 samples of the constant 13
    # from a zero state with alpha = 0.1.  The exact hull statement is refuted for binary64 (C16_b64_lpf_hull_refuted): the output
    # passes 13 by one unit in the last place; listed as an open finding, the enlarged hull (C16_b64_lpf_hull_enlarged) is what holds
    probe = "lpf " + " ".join(fcorr.argbits(v) for v in [0.1] + [13.0] * 340)
    pr_out = fcorr.run_c(cbin, [probe])[0]
    ys = [fcorr.fval(b) for b in pr_out]
    over = [(k, y) for k, y in enumerate(ys) if not (0.0 <= y <= 13.0)]
    if over:
        k, y = over[0]
        ctx.report("a_lpf_iter/hull-one-ulp",
                   "a_lpf_iter with alpha = 0.1 fed the constant 13.0 from a zero state returns %r at step %d: outside the range [0, 13] of the "
                   "values fed so far by %g (one unit in the last place; the two rounded products of `output *= 1 - alpha; output += x * alpha` "
                   "do not add up to a convex combination exactly)" % (y, k, y - 13.0),
                   {"alpha": "0.1", "input": "13.0 repeated", "first_step_outside": k, "value": repr(y)})
    ctx.cov["lpf_strict_hull_probe_steps_outside"] = len(over)
    ctx.count(evaluations=len(cases) + 1, nontrivial=len(set(c[0] for c in cases if len(c[0].split()) > 3)))
    ctx.cov["rule"] = ("tf: orders 0..8 x 0..8, sequences of 1..30 samples, integer-valued (exact reference) and real-valued data, "
                       "optional a_tf_zero at a random step; lpf/hpf: alpha in {0,1,.5,random,tiny}, random and constant inputs; "
                       "gen: log grid fc*ts = 1e-12..1e12; distinct = distinct case lines with more than 2 arguments")
    ctx.cov["case_kinds"] = kinds
    ctx.cov["correspondence_mismatches"] = nd
    for c in cases[:: max(1, len(cases) // 4)][:4]:
        ctx.sample({"case": c[0][:160], "model_expr": c[1][:160]})
    __import__("vglue").glue(ctx, "C16")   # glue around the modelled core: C++ member wrappers + float / long double builds (differential tests, tools/vglue.py)
